"""Second-solver cross-check (ground rule 8): a sample of the queries discharged by z3 is re-decided by cvc5
(z3 Solver.to_smt2() -> cvc5 InputParser).  A definite disagreement (sat vs unsat) is a harness error; cvc5 `unknown`
or a timeout says nothing.  Enabled in the thorough tier (VERIF_TIER=thorough) or with VERIF_CVC5=1, for the first
VERIF_CVC5_N (default 25) queries of every worker process."""
import os
import time

import z3

STATS = dict(checked=0, agreed=0, unknown=0, disagreed=0, seconds=0.0)
_LIMIT = int(os.environ.get("VERIF_CVC5_N", "25"))


def enabled():
    return (os.environ.get("VERIF_TIER") == "thorough" or os.environ.get("VERIF_CVC5") == "1") and STATS["checked"] < _LIMIT


def cvc5_verdict(smt2, timeout_ms=5000):
    import cvc5

    slv = cvc5.Solver()
    slv.setOption("tlimit-per", str(timeout_ms))
    slv.setLogic("ALL")
    p = cvc5.InputParser(slv)
    p.setStringInput(cvc5.InputLanguage.SMT_LIB_2_6, smt2, "q")
    sm = p.getSymbolManager()
    res = "unknown"
    while True:
        cmd = p.nextCommand()
        if cmd.isNull():
            break
        out = cmd.invoke(slv, sm).strip()
        if out in ("sat", "unsat", "unknown"):
            res = out
    return res


class Disagreement(RuntimeError):
    pass


def check(assertions, z3_verdict):
    """assertions: list of z3 Bool; z3_verdict: 'sat'/'unsat'. Raises Disagreement on a definite mismatch."""
    if z3_verdict not in ("sat", "unsat") or not enabled():
        return
    t0 = time.time()
    s = z3.Solver()
    s.add(*assertions)
    try:
        v = cvc5_verdict(s.to_smt2())
    except Exception as e:  # parse problems of exotic terms: not a verdict
        v = "unknown"
    STATS["checked"] += 1
    STATS["seconds"] += time.time() - t0
    if v == "unknown":
        STATS["unknown"] += 1
    elif v == z3_verdict:
        STATS["agreed"] += 1
    else:
        STATS["disagreed"] += 1
        raise Disagreement("z3 says %s, cvc5 says %s on:\n%s" % (z3_verdict, v, s.to_smt2()[:2000]))
