"""Engine R: regular expressions (CPython's own sre IR) -> z3.

(a) `to_re(pattern)`       z3 regular-expression term for language claims (LITERAL, IN, RANGE, CATEGORY_DIGIT, BRANCH,
                           MAX_REPEAT, SUBPATTERN);
(b) `match_len(pattern, window)`  the ORDERED-CHOICE match length (what re.match / a pyparsing Regex token consumes): BRANCH takes
                           the first alternative that matches, MAX_REPEAT is greedy, over a window of symbolic code points
                           (-1 = end of input).  Anything outside the supported IR raises NotImplementedError.
"""
import z3

try:
    import re._parser as sre_parse
    import re._constants as sre_c
except ImportError:  # pragma: no cover
    import sre_parse
    import sre_constants as sre_c


def _in_cond(items, ch):
    conds = []
    neg = False
    for op, av in items:
        n = str(op)
        if n == "LITERAL":
            conds.append(ch == av)
        elif n == "RANGE":
            conds.append(z3.And(ch >= av[0], ch <= av[1]))
        elif n == "NEGATE":
            neg = True
        elif n == "CATEGORY" and str(av) == "CATEGORY_DIGIT":
            conds.append(z3.And(ch >= 48, ch <= 57))  # ASCII digits only: other Unicode decimal digits are outside the claim
        else:
            raise NotImplementedError((n, av))
    c = z3.Or(*conds) if conds else z3.BoolVal(False)
    return z3.Not(c) if neg else c


def paths(seq, pos, win):
    """ordered list of (condition, end position) for matching the node sequence at pos"""
    if not seq:
        return [(z3.BoolVal(True), pos)]
    (op, av), rest = seq[0], seq[1:]
    n = str(op)
    out = []

    def cont(cond, p):
        for c2, e in paths(rest, p, win):
            out.append((z3.And(cond, c2), e))

    if n in ("LITERAL", "IN", "NOT_LITERAL", "ANY"):
        if pos >= len(win):
            return []
        ch = win[pos]
        if n == "LITERAL":
            c = ch == av
        elif n == "IN":
            c = _in_cond(av, ch)
        elif n == "NOT_LITERAL":
            c = ch != av
        else:
            c = ch != 10
        cont(z3.And(ch >= 0, c), pos + 1)
    elif n == "BRANCH":
        for alt in av[1]:
            for c1, p in paths(list(alt), pos, win):
                cont(c1, p)
    elif n == "SUBPATTERN":
        for c1, p in paths(list(av[3]), pos, win):
            cont(c1, p)
    elif n == "MAX_REPEAT":
        lo, hi, sub = av
        hi = min(hi, len(win) - pos) if hi == sre_c.MAXREPEAT else hi

        def rep(k, p, cond):
            res = []
            if k < hi and p < len(win):
                for c1, p1 in paths(list(sub), p, win):
                    if p1 > p:
                        res += rep(k + 1, p1, z3.And(cond, c1))
            if k >= lo:
                res.append((cond, p))
            return res

        for c1, p in rep(0, pos, z3.BoolVal(True)):
            cont(c1, p)
    elif n == "AT":
        if str(av) in ("AT_BEGINNING", "AT_BEGINNING_STRING"):
            if pos == 0:
                cont(z3.BoolVal(True), pos)
        else:
            raise NotImplementedError((n, av))
    else:
        raise NotImplementedError(n)
    return out


def match_len(pattern, win):
    """z3 Int: number of characters re.match(pattern, s) consumes on the window (first path in priority order), -1 = no match"""
    tree = list(sre_parse.parse(pattern))
    expr = z3.IntVal(-1)
    for cond, end in reversed(paths(tree, 0, win)):
        expr = z3.If(cond, z3.IntVal(end), expr)
    return expr


def to_re(pattern):
    tree = list(sre_parse.parse(pattern))
    return _seq_re(tree)


def _seq_re(seq):
    parts = [_node_re(op, av) for op, av in seq]
    if not parts:
        return z3.Re("")
    return parts[0] if len(parts) == 1 else z3.Concat(*parts)


def _node_re(op, av):
    n = str(op)
    if n == "LITERAL":
        return z3.Re(chr(av))
    if n == "IN":
        alts = []
        for o2, a2 in av:
            m = str(o2)
            if m == "LITERAL":
                alts.append(z3.Re(chr(a2)))
            elif m == "RANGE":
                alts.append(z3.Range(chr(a2[0]), chr(a2[1])))
            elif m == "CATEGORY" and str(a2) == "CATEGORY_DIGIT":
                alts.append(z3.Range("0", "9"))
            else:
                raise NotImplementedError((m, a2))
        return alts[0] if len(alts) == 1 else z3.Union(*alts)
    if n == "BRANCH":
        alts = [_seq_re(list(a)) for a in av[1]]
        return alts[0] if len(alts) == 1 else z3.Union(*alts)
    if n == "SUBPATTERN":
        return _seq_re(list(av[3]))
    if n == "MAX_REPEAT":
        lo, hi, sub = av
        r = _seq_re(list(sub))
        if hi == sre_c.MAXREPEAT:
            return z3.Star(r) if lo == 0 else (z3.Plus(r) if lo == 1 else z3.Concat(*([r] * lo + [z3.Star(r)])))
        return z3.Loop(r, lo, hi)
    raise NotImplementedError(n)
