#!/bin/bash
# usage: tools/tryseeds.sh C01_C C01_D ...   -- run each seeded change under /verif/seeded through its property's quick check
for s in "$@"; do
  id="${s%%_*}"
  echo "=== $s"
  /verif/tools/trymut.sh /verif/seeded/$s/patch.diff $id 2>&1 | grep -E "^(VIOLATION|HARNESS|INCONCLUSIVE|== C|exit=|patch|  counterexample)" | cut -c1-260 | head -8
done
cd /verif && git checkout evidence/ 2>/dev/null
