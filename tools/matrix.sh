#!/bin/bash
# usage: tools/matrix.sh <dir with *__Cxx.diff> <out.tsv> [jobs]  -- for every patch: scratch worktree, existing suite, the property's quick check
DIR="$1"; OUT="$2"; J="${3:-3}"
run_one() {
  P="$1"; B=$(basename "$P" .diff); ID="${B##*__}"
  WT="/tmp/mx-$B"
  git -C /repo worktree add -q --detach "$WT" HEAD 2>/dev/null || { echo -e "$B\t$ID\tworktree-failed"; return; }
  if ! ( cd "$WT" && git apply "$P" 2>/dev/null ); then git -C /repo worktree remove --force "$WT"; echo -e "$B\t$ID\tpatch-does-not-apply"; return; fi
  FAILS=$(cd "$WT" && /venv/bin/python -m pytest -q -p no:cacheprovider --timeout=900 -x --deselect chempy/tests/test_solution.py --deselect chempy/tests/test_units.py::test_to_unitless__sympy 2>&1 | tail -1)
  if echo "$FAILS" | grep -qE "(^| )[0-9]+ failed"; then SUITE="suite-FAILS"; elif echo "$FAILS" | grep -q passed; then SUITE="suite-passes"; else SUITE="suite-?"; fi
  RES=$(cd /verif && VERIF_REPO="$WT" VERIF_NO_EVIDENCE=1 ./check "$ID" --tier quick 2>&1 | grep -E "^(VIOLATION|== C)" | tail -2 | tr '\n' ' ' | cut -c1-200)
  case "$RES" in *VIOLATION*) V="CAUGHT";; *"errors=0"*) V="missed";; *) V="harness-error";; esac
  git -C /repo worktree remove --force "$WT"
  echo -e "$B\t$ID\t$SUITE\t$V\t$RES"
}
export -f run_one
ls "$DIR"/*.diff | xargs -P "$J" -I{} bash -c 'run_one {}' > "$OUT"
sort "$OUT" -o "$OUT"
