"""CrossHair harnesses for C14: name/symbol lookup is case-insensitive and inverse to the table."""
from chempy.util.periodic import atomic_number, symbols, names


def _h_symbol(i: int) -> bool:
    """
    pre: 0 <= i < 118
    post: _
    """
    s = symbols[i]
    return atomic_number(s) == i + 1 and atomic_number(s.lower()) == i + 1 and atomic_number(s.upper()) == i + 1


def _h_name(i: int) -> bool:
    """
    pre: 0 <= i < 118
    post: _
    """
    n = names[i]
    return atomic_number(n) == i + 1 and atomic_number(n.lower()) == i + 1 and atomic_number(n.upper()) == i + 1
