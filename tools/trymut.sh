#!/bin/bash
# usage: tools/trymut.sh <patch.diff> <PROP> [tier] -- applies a seeded change to /repo, runs the check, reverts.
set -u
P="$1"; ID="$2"; TIER="${3:-quick}"
cd /repo || exit 2
git diff --quiet || { echo "/repo is dirty"; exit 2; }
git apply "$P" || { echo "patch does not apply"; exit 2; }
cd /verif
./check "$ID" --tier "$TIER" 2>&1 | grep -E "^(VIOLATION|KNOWN-FINDING|HARNESS-ERROR|INCONCLUSIVE|==|  counterexample)" | cut -c1-400 | head -${LINES_MAX:-20}
rc=${PIPESTATUS[0]}
cd /repo && git checkout -- . 
echo "exit=$rc"
