"""./check driver: runs the obligations of one property in worker processes, replays counterexamples,
applies the known-findings list, writes evidence, sets the exit code."""
import argparse
import hashlib
import importlib
import json
import multiprocessing as mp
import os
import subprocess
import sys
import time
import traceback

from . import env

VERIF = env.VERIF


def _child(conn, modname, fn, kwargs):
    try:
        env.setup()
        mod = importlib.import_module(modname)
        t0 = time.time()
        res = getattr(mod, fn)(**kwargs)
        res.setdefault("wall_s", round(time.time() - t0, 3))
        from . import crosscheck

        res["cvc5"] = dict(crosscheck.STATS)
        conn.send(res)
    except BaseException as e:  # report everything, the parent decides
        conn.send({"status": "error", "detail": "%s: %s\n%s" % (type(e).__name__, e, traceback.format_exc()[-3000:])})
    finally:
        conn.close()


def run_tasks(modname, tasks, nproc, log):
    """tasks: list of dict(id, fn, kwargs, timeout). Returns list of result dicts (same order)."""
    ctx = mp.get_context("fork")
    pending = list(enumerate(tasks))
    running = {}
    results = [None] * len(tasks)
    while pending or running:
        while pending and len(running) < nproc:
            i, t = pending.pop(0)
            pc, cc = ctx.Pipe(duplex=False)
            p = ctx.Process(target=_child, args=(cc, modname, t["fn"], t.get("kwargs", {})))
            p.start()
            cc.close()
            running[i] = (p, pc, time.time(), t)
        time.sleep(0.02)
        for i in list(running):
            p, pc, t0, t = running[i]
            res = None
            if pc.poll():
                try:
                    res = pc.recv()
                except EOFError:
                    res = {"status": "error", "detail": "worker died without result (exit %s)" % p.exitcode}
                p.join(5)
            elif not p.is_alive():
                res = {"status": "error", "detail": "worker exited %s without result" % p.exitcode}
            elif time.time() - t0 > t.get("timeout", 600):
                p.terminate()
                p.join(2)
                if p.is_alive():
                    p.kill()
                res = {"status": "inconclusive", "detail": "task timeout %ss" % t.get("timeout", 600)}
            if res is not None:
                res.setdefault("id", t["id"])
                res.setdefault("wall_s", round(time.time() - t0, 3))
                results[i] = res
                del running[i]
                log("  [%s] %-58s %s%s" % (
                    res.get("status", "?")[:5], t["id"][:58],
                    ("%d/%d " % (res.get("discharged", 0), res.get("obligations", 0))) if "obligations" in res else "",
                    ("%.1fs" % res["wall_s"])))
    return results


def load_known():
    p = os.path.join(VERIF, "known_findings.json")
    if not os.path.exists(p):
        return {"findings": [], "fixed": []}
    with open(p) as fh:
        return json.load(fh)


def replay_script(path, timeout=300):
    """run a replay script against REPO; returns (reproduces: bool|None, output)"""
    e = dict(os.environ)
    e["VERIF_REPO"] = env.REPO
    e["PYTHONPATH"] = env.REPO + os.pathsep + VERIF
    e["PYTHONDONTWRITEBYTECODE"] = "1"
    try:
        r = subprocess.run([sys.executable, path], env=e, capture_output=True, text=True, timeout=timeout, cwd="/")
    except subprocess.TimeoutExpired:
        return None, "replay timeout"
    out = (r.stdout + r.stderr)[-2000:]
    if r.returncode == 1:
        return True, out
    if r.returncode == 0:
        return False, out
    return None, out


MAX_REPLAYS = 12  # distinct counterexamples replayed and reported per run; further ones are only counted

REPLAY_HEADER = '''#!/usr/bin/env python
"""Replay of a counterexample found by /verif/check %(prop)s (obligation %(ob)s).
Exits 1 if the violation reproduces on the chempy found under $VERIF_REPO (default /repo), 0 if not.
%(desc)s
"""
import os, sys, warnings
sys.path.insert(0, os.environ.get("VERIF_REPO", "/repo"))
warnings.filterwarnings("ignore", category=DeprecationWarning)
import chempy
assert os.path.realpath(chempy.__file__).startswith(os.path.realpath(sys.path[0]) + os.sep), chempy.__file__
from fractions import Fraction


_CHEMPY_ROOT = os.path.realpath(sys.path[0]) + os.sep + "chempy" + os.sep


def _excepthook(tp, val, tb):
    # an uncaught exception raised INSIDE chempy counts as a reproduction (exit 1: the real code failed on a concrete input for which
    # the obligation expects a value); one raised by the replay script or by /verif helpers is a harness crash (exit 3, never a verdict)
    import traceback
    traceback.print_exception(tp, val, tb)
    # attribution: walking from the innermost frame outwards, library frames (numpy, sympy, ...) are skipped; the first frame that is
    # chempy's own means chempy made the failing call (exit 1), the first that is this script's or a /verif helper's means we did (exit 3)
    code = 3
    for fr in reversed(traceback.extract_tb(tb) if tb is not None else []):
        fn_ = os.path.realpath(fr.filename)
        if fn_.startswith(_CHEMPY_ROOT):
            code = 1
            break
        if fn_.startswith("/verif" + os.sep) or fn_ == os.path.realpath(sys.argv[0]) or fr.filename.startswith("<"):
            break
    sys.stdout.flush(); sys.stderr.flush()
    os._exit(code)


sys.excepthook = _excepthook
'''


def main(argv=None):
    ap = argparse.ArgumentParser()
    ap.add_argument("prop")
    ap.add_argument("--tier", default=os.environ.get("VERIF_TIER", "quick"), choices=["quick", "thorough"])
    ap.add_argument("--replay")
    ap.add_argument("--only", help="substring filter on obligation ids (development aid; evidence is marked partial)")
    ap.add_argument("--nproc", type=int, default=int(os.environ.get("VERIF_NPROC", "16")))
    ap.add_argument("--list", action="store_true")
    a = ap.parse_args(argv)
    seed = int(os.environ.get("VERIF_SEED", "0"))
    os.environ["VERIF_TIER"] = a.tier
    prop = a.prop

    if a.replay:
        rep, out = replay_script(a.replay)
        print(out)
        if rep is True:
            print("VIOLATION property=%s replay=%s" % (prop, a.replay))
            return 1
        if rep is False:
            print("replay does not reproduce on this tree")
            return 0
        print("HARNESS-ERROR: replay script failed to run")
        return 2

    env.setup()
    modname = "checks.%s" % prop
    sys.path.insert(0, VERIF)
    try:
        mod = importlib.import_module(modname)
    except ImportError as e:
        print("HARNESS-ERROR: no check module for %s (%s)" % (prop, e))
        return 2
    t_start = time.time()
    tasks = mod.tasks(a.tier, seed)
    if a.only:
        tasks = [t for t in tasks if a.only in t["id"]]
    if a.list:
        for t in tasks:
            print(t["id"])
        return 0

    def log(s):
        print(s, flush=True)

    log("== %s tier=%s seed=%d tasks=%d repo=%s" % (prop, a.tier, seed, len(tasks), env.REPO))
    results = run_tasks(modname, tasks, a.nproc, log)

    known = load_known()
    known_keys = {(k["property"], k["key"]): k for k in known.get("findings", [])}
    n_viol = 0
    n_known = 0
    n_err = 0
    n_inconc = 0
    obligations = discharged = 0
    queries = paths = 0
    solver_s = 0.0
    samples = []
    functions = set()
    per_ob = []
    nontrivial = 0
    seen_viol = set()
    cvc5_tot = {}
    n_skipped = 0
    for t, r in zip(tasks, results):
        st = r.get("status")
        ob = r.get("obligations", 1)
        di = r.get("discharged", 1 if st == "discharged" else 0)
        obligations += ob
        discharged += di
        nontrivial += r.get("nontrivial", di)
        queries += r.get("queries", 0)
        paths += r.get("paths", 0)
        solver_s += r.get("solver_s", 0.0)
        for f in r.get("functions", []):
            functions.add(f)
        for kk, vv in (r.get("cvc5") or {}).items():
            cvc5_tot[kk] = cvc5_tot.get(kk, 0) + vv
        if r.get("sample") is not None and len(samples) < 12:
            samples.append({"obligation": r["id"], "case": r["sample"]})
        per_ob.append({k: r.get(k) for k in ("id", "engine", "status", "bounds", "obligations", "discharged", "paths",
                                             "queries", "solver_s", "twin", "wall_s", "detail") if r.get(k) is not None})
        if st == "error":
            n_err += 1
            log("HARNESS-ERROR obligation=%s %s" % (r["id"], r.get("detail", "")[:1500]))
        if r.get("twin") == "passed":
            n_err += 1
            log("HARNESS-ERROR obligation=%s reachability twin was NOT violated: obligation is vacuous" % r["id"])
        for inc in r.get("inconclusive", []) or ([r.get("detail", "")] if st == "inconclusive" else []):
            n_inconc += 1
            log("INCONCLUSIVE property=%s obligation=%s %s" % (prop, r["id"], str(inc)[:300]))
        for v in r.get("violations", []):
            key = v["key"]
            if key in seen_viol:
                continue
            seen_viol.add(key)
            if len(seen_viol) > MAX_REPLAYS:
                n_skipped += 1
                continue
            h = hashlib.sha1((prop + key + v["replay_src"]).encode()).hexdigest()[:10]
            path = os.path.join(VERIF, "replays", "%s_%s.py" % (prop, h))
            with open(path, "w") as fh:
                fh.write(REPLAY_HEADER % dict(prop=prop, ob=r["id"], desc=v.get("desc", "").replace('"""', "'''")))
                fh.write(v["replay_src"])
            rep, out = replay_script(path)
            if rep is not True and v.get("soft"):
                n_inconc += 1
                os.remove(path)
                log("INCONCLUSIVE property=%s obligation=%s candidate from an abstracted query did not reproduce concretely: %s" % (
                    prop, r["id"], v.get("desc", "")[:300]))
                continue
            if rep is not True:
                n_err += 1
                log("HARNESS-ERROR obligation=%s counterexample did not replay (%s): %s\n%s" % (
                    r["id"], "no reproduction" if rep is False else "replay crashed", v.get("desc", ""), out[-800:]))
                continue
            if (prop, key) in known_keys:
                n_known += 1
                os.remove(path)
                log("KNOWN-FINDING: property=%s %s [%s]" % (prop, known_keys[(prop, key)]["what"], key))
            else:
                n_viol += 1
                log("  counterexample: %s" % v.get("desc", ""))
                log("VIOLATION property=%s replay=%s" % (prop, path))
    wall = time.time() - t_start
    meta = getattr(mod, "META", {})
    coverage = {
        "obligations": obligations,
        "discharged": discharged,
        "inconclusive": n_inconc,
        "evaluations": obligations,
        "distinct_nontrivial": nontrivial,
        "rule": meta.get("rule", "one evaluation = one solver-decided obligation over symbolic inputs; non-trivial = "
                                 "discharged with a reachability twin that came back violated"),
        "samples": samples or [{"note": "no samples produced"}],
        "explanation": meta.get("explanation", ""),
        "checker_cmd": "./check %s --tier %s" % (prop, a.tier),
        "trusted_base": meta.get("trusted_base", []),
        "programs": meta.get("programs_from", obligations) if isinstance(meta.get("programs_from"), int) else obligations,
        "disagreements_checked": n_viol + n_known,
        "queries": queries,
        "paths": paths,
        "solver_s": round(solver_s, 3),
        "functions_encoded": sorted(functions),
        "second_solver_cvc5": cvc5_tot or {"checked": 0, "note": "cross-check runs in the thorough tier (or VERIF_CVC5=1)"},
        "bounds": meta.get("bounds", {}).get(a.tier, meta.get("bounds", "")),
        "outside_claim": meta.get("outside", []),
        "per_obligation": per_ob,
        "partial_run": bool(a.only),
        "exhaustive": False,
    }
    ev = {
        "property_id": prop,
        "tier": a.tier,
        "seed": seed,
        "level": meta.get("level", "other"),
        "coverage": coverage,
        "assumptions": meta.get("assumptions", []),
        "wall_s": round(wall, 2),
        "violations": n_viol,
        "known_findings": n_known,
        "harness_errors": n_err,
    }
    if not a.only and not os.environ.get("VERIF_NO_EVIDENCE"):
        with open(os.path.join(VERIF, "evidence", "%s.json" % prop), "w") as fh:
            json.dump(ev, fh, indent=1, sort_keys=True, default=str)
    log("== %s: obligations=%d discharged=%d inconclusive=%d violations=%d known=%d errors=%d queries=%d paths=%d "
        "solver=%.1fs wall=%.1fs" % (prop, obligations, discharged, n_inconc, n_viol, n_known, n_err, queries, paths,
                                     solver_s, wall))
    if n_skipped:
        log("   (%d further counterexamples were not replayed: cap %d per run)" % (n_skipped, MAX_REPLAYS))
    if n_viol:
        return 1
    if n_err:
        return 2
    return 0


if __name__ == "__main__":
    sys.exit(main())
