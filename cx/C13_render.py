"""CrossHair harnesses for C13: LaTeX / Unicode / HTML names show the same formula that was given.

The oracle is a structural renderer written from the statement and working on TOKENS (counts -> subscripts, charge ->
magnitude-then-sign with 1 omitted, '..' -> separator symbol with the multiplier kept as a number (1 omitted), prefixes via an
independently written table, suffix and brackets verbatim); the implementation works by regex substitution on the raw text.
"""
import os

from chempy import Reaction, Equilibrium, Substance
from chempy.util.parsing import formula_to_latex, formula_to_unicode, formula_to_html

GREEK = ("alpha", "beta", "gamma", "delta", "epsilon", "zeta", "eta", "theta", "iota", "kappa", "lambda", "mu", "nu", "xi", "omicron",
         "pi", "rho", "sigma", "tau", "upsilon", "phi", "chi", "psi", "omega")
GREEK_U = {"alpha": "α", "beta": "β", "gamma": "γ", "delta": "δ", "epsilon": "ε", "zeta": "ζ",
           "eta": "η", "theta": "θ", "iota": "ι", "kappa": "κ", "lambda": "λ", "mu": "μ", "nu": "ν",
           "xi": "ξ", "omicron": "ο", "pi": "π", "rho": "ρ", "sigma": "σ", "tau": "τ", "upsilon": "υ",
           "phi": "φ", "chi": "χ", "psi": "ψ", "omega": "ω"}
SUBD = "₀₁₂₃₄₅₆₇₈₉"
SUPD = "⁰¹²³⁴⁵⁶⁷⁸⁹"
BS = chr(92)


def sub_(fmt, digits):
    if fmt == "latex":
        return "_{" + digits + "}"
    if fmt == "html":
        return "<sub>" + digits + "</sub>"
    return "".join("." if c == "." else SUBD[ord(c) - 48] for c in digits)


def sup_(fmt, tok):
    if fmt == "latex":
        return "^{" + tok + "}"
    if fmt == "html":
        return "<sup>" + tok + "</sup>"
    return "".join("⁺" if c == "+" else ("⁻" if c == "-" else SUPD[ord(c) - 48]) for c in tok)


def sep_(fmt):
    return {"latex": BS + "cdot ", "html": "&sdot;", "unicode": "·"}[fmt]


def prefix_(fmt, p):
    if p == ".":
        return {"latex": "^" + BS + "bullet ", "html": "&sdot;", "unicode": "⋅"}[fmt]
    name = p[:-1]
    if fmt == "latex":
        return {"epsilon": BS + "varepsilon-", "omicron": "o-"}.get(name, BS + name + "-")
    if fmt == "html":
        return "&" + name + ";-"
    return GREEK_U[name] + "-"


def charge_(fmt, q):
    if q == 0:
        return ""
    mag = "" if abs(q) == 1 else str(abs(q))
    return sup_(fmt, mag + ("+" if q > 0 else "-"))


NMAX = 999 if os.environ.get("VERIF_TIER") == "thorough" else 99
RENDER = {"latex": formula_to_latex, "unicode": formula_to_unicode, "html": formula_to_html}
FMTS = ("latex", "unicode", "html")


def _all_fmts(formula, expected_fn):
    for fmt in FMTS:
        if RENDER[fmt](formula) != expected_fn(fmt):
            return False
    return True


def _h_count_simple(n: int) -> bool:
    """
    pre: 1 <= n <= NMAX
    post: _
    """
    s = str(n)
    return _all_fmts("H" + s + "O", lambda fmt: "H" + sub_(fmt, s) + "O")


def _h_count_group_suffix(n: int) -> bool:
    """
    pre: 1 <= n <= NMAX
    post: _
    """
    s = str(n)
    return _all_fmts("Fe(OH)" + s + "(s)", lambda fmt: "Fe(OH)" + sub_(fmt, s) + "(s)")


def _h_count_nested(n: int) -> bool:
    """
    pre: 1 <= n <= NMAX
    post: _
    """
    s = str(n)
    return _all_fmts("[Co(NH3)" + s + "]Cl3", lambda fmt: "[Co(NH" + sub_(fmt, "3") + ")" + sub_(fmt, s) + "]Cl" + sub_(fmt, "3"))


def _h_count_twice_charge(n: int) -> bool:
    """
    pre: 1 <= n <= NMAX
    post: _
    """
    s = str(n)
    return _all_fmts("C" + s + "H" + s + "+", lambda fmt: "C" + sub_(fmt, s) + "H" + sub_(fmt, s) + sup_(fmt, "+"))


def _h_decimal_fraction(m: int) -> bool:
    """
    pre: 0 <= m <= NMAX
    post: _
    """
    s = "2." + str(m)
    return _all_fmts("Ca" + s + "Fe2(s)", lambda fmt: "Ca" + sub_(fmt, s) + "Fe" + sub_(fmt, "2") + "(s)")


def _h_decimal_integer_part(n: int) -> bool:
    """
    pre: 0 <= n <= NMAX
    post: _
    """
    s = str(n) + ".6285"
    return _all_fmts("Fe" + s + "Mg5.395", lambda fmt: "Fe" + sub_(fmt, s) + "Mg" + sub_(fmt, "5.395"))


def _h_charge_pos(q: int) -> bool:
    """
    pre: 1 <= q <= 99
    post: _
    """
    return _all_fmts("Fe+" + str(q), lambda fmt: "Fe" + charge_(fmt, q))


def _h_charge_neg_suffix(q: int) -> bool:
    """
    pre: 1 <= q <= 99
    post: _
    """
    return _all_fmts("SO4-" + str(q) + "(aq)", lambda fmt: "SO" + sub_(fmt, "4") + charge_(fmt, -q) + "(aq)")


def _h_charge_bracket(q: int) -> bool:
    """
    pre: 1 <= q <= 99
    post: _
    """
    return _all_fmts("[Fe(CN)6]-" + str(q), lambda fmt: "[Fe(CN)" + sub_(fmt, "6") + "]" + charge_(fmt, -q))


def _h_charge_after_counts(q: int) -> bool:
    """
    pre: 1 <= q <= 99
    post: _
    """
    ok = _all_fmts("C18H38+" + str(q), lambda fmt: "C" + sub_(fmt, "18") + "H" + sub_(fmt, "38") + charge_(fmt, q))
    return ok and _all_fmts("Na+", lambda fmt: "Na" + sup_(fmt, "+")) and _all_fmts("e-(aq)", lambda fmt: "e" + sup_(fmt, "-") + "(aq)")


def _h_hydrate_one(n: int) -> bool:
    """
    pre: 1 <= n <= 99
    post: _
    """
    a = str(n)

    def exp(fmt):
        return "Na" + sub_(fmt, "2") + "CO" + sub_(fmt, "3") + sep_(fmt) + ("" if n == 1 else a) + "H" + sub_(fmt, "2") + "O(s)"
    return _all_fmts("Na2CO3.." + a + "H2O(s)", exp) and _all_fmts("Na2CO3·" + a + "H2O(s)", exp)


def _hyd2(fmt, n, m):
    return ("(NH" + sub_(fmt, "4") + ")" + sub_(fmt, "2") + "SO" + sub_(fmt, "4") + sep_(fmt) + ("" if n == 1 else str(n)) + "FeSO" + sub_(fmt, "4")
            + sep_(fmt) + ("" if m == 1 else str(m)) + "H" + sub_(fmt, "2") + "O")


def _h_hydrate_two_first(n: int) -> bool:
    """
    pre: 1 <= n <= 99
    post: _
    """
    return _all_fmts("(NH4)2SO4.." + str(n) + "FeSO4..6H2O", lambda fmt: _hyd2(fmt, n, 6))


def _h_hydrate_two_second(m: int) -> bool:
    """
    pre: 1 <= m <= 99
    post: _
    """
    return _all_fmts("(NH4)2SO4..FeSO4.." + str(m) + "H2O", lambda fmt: _hyd2(fmt, 1, m))


def _h_prefix(i: int, j: int) -> bool:
    """
    pre: 0 <= i < 25
    pre: 0 <= j < 4
    post: _
    """
    p = "." if i == 24 else GREEK[i] + "-"
    core, rendered_core = (("FeOOH(s)", None), ("NO2(g)", None), ("X", None), ("Zn(OH)2(s)", None))[j]
    for fmt in FMTS:
        base = RENDER[fmt](core)
        if RENDER[fmt](p + core) != prefix_(fmt, p) + base:
            return False
        # a greek prefix followed by the radical dot: both map to their symbols, in the written order
        if p != "." and RENDER[fmt](p + "." + core) != prefix_(fmt, p) + prefix_(fmt, ".") + base:
            return False
    return True


def _tok_render(fmt, s):
    """structural renderer for strings over the alphabet H O 2 3 + (grammar: ([HO][23]*)+ ([+][23]*)? )"""
    out = ""
    i = 0
    n = len(s)
    while i < n and s[i] != "+":
        if s[i] in "HO":
            out += s[i]
            i += 1
        else:
            j = i
            while j < n and s[j] in "23":
                j += 1
            out += sub_(fmt, s[i:j])
            i = j
    if i < n:
        mag = s[i + 1:]
        out += sup_(fmt, ("" if mag in ("", "1") else mag) + "+")
    return out


def _grammatical(s):
    if len(s) == 0 or s[0] not in "HO":
        return False
    seen_plus = False
    for c in s:
        if seen_plus and c not in "23":
            return False
        if c == "+":
            seen_plus = True
    return True


MAXLEN = 5 if os.environ.get("VERIF_TIER") == "thorough" else 4


def _h_whole_string(s: str) -> bool:
    """
    pre: 1 <= len(s) <= MAXLEN
    pre: all(c in "HO23+" for c in s)
    pre: _grammatical(s)
    post: _
    """
    for fmt in FMTS:
        if RENDER[fmt](s) != _tok_render(fmt, s):
            return False
    return True


_SUBS = {k: Substance(k, latex_name="L{" + k + "}", unicode_name="U[" + k + "]", html_name="<b>" + k + "</b>") for k in ("A", "B", "C", "D")}


def _h_reaction_rendering(n: int, m: int) -> bool:
    """
    pre: 1 <= n <= 99 and 1 <= m <= 99
    post: _
    """
    r = Reaction({"B": n, "A": 1}, {"D": m, "C": 1}, checks=())
    e = Equilibrium({"A": n}, {"C": m}, checks=())

    def co(v):
        return "" if v == 1 else str(v) + " "
    exp_l = "L{A} + " + co(n) + "L{B} " + BS + "rightarrow L{C} + " + co(m) + "L{D}"
    exp_u = "U[A] + " + co(n) + "U[B] → U[C] + " + co(m) + "U[D]"
    exp_h = "<b>A</b> + " + co(n) + "<b>B</b> &rarr; <b>C</b> + " + co(m) + "<b>D</b>"
    if r.latex(_SUBS) != exp_l or r.unicode(_SUBS) != exp_u or r.html(_SUBS) != exp_h:
        return False
    if e.latex(_SUBS) != co(n) + "L{A} " + BS + "rightleftharpoons " + co(m) + "L{C}":
        return False
    if e.unicode(_SUBS) != co(n) + "U[A] ⇌ " + co(m) + "U[C]" or e.html(_SUBS) != co(n) + "<b>A</b> &harr; " + co(m) + "<b>C</b>":
        return False
    return True


def _h_primes_caged(n: int) -> bool:
    """
    pre: 1 <= n <= NMAX
    post: _
    """
    s = str(n)
    ok = _all_fmts("Na'" + "+", lambda fmt: "Na'" + sup_(fmt, "+"))
    ok = ok and _all_fmts("H" + s + "O*", lambda fmt: "H" + sub_(fmt, s) + "O*")
    return ok and _all_fmts("Li@C" + s, lambda fmt: "Li@C" + sub_(fmt, s))


def _h_braces(q: int) -> bool:
    """
    pre: 1 <= q <= 9
    post: _
    """
    # curly braces are escaped in LaTeX only, through re.sub with a back-reference: CrossHair's model of that call gave
    # counterexamples that do not replay, so only the unicode / html renderers are traced here
    ok = RENDER["unicode"]("{(H2O)2OH}12+" + str(q)) == "{(H" + sub_("unicode", "2") + "O)" + sub_("unicode", "2") + "OH}" + sub_("unicode", "12") + charge_("unicode", q)
    ok = ok and RENDER["html"]("{(H2O)2OH}12+" + str(q)) == "{(H" + sub_("html", "2") + "O)" + sub_("html", "2") + "OH}" + sub_("html", "12") + charge_("html", q)
    return ok  # the LaTeX escaping of braces is compared on concrete formulas in checks/C13.py::task_species


def _h_radical_with_count_and_charge(n: int) -> bool:
    """
    pre: 2 <= n <= 99
    post: _
    """
    s = str(n)
    return _all_fmts(".NO" + s + "-" + s, lambda fmt: prefix_(fmt, ".") + "NO" + sub_(fmt, s) + charge_(fmt, -n))
