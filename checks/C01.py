"""C01 - formula parsing yields exactly the written elemental composition and charge.

L1 (Engine R)  the token regexes of the LIVE pyparsing grammar, translated from CPython's sre IR to z3: element language == the 118
               reference symbols; ordered-choice (greedy) match length on every 2/3-character window; count regex == maximal numeral.
L2 (Engine Z)  the REAL grammar + parse actions + hydrate/charge code run on generated formula skeletons in which every numeral is a
               placeholder bound to a z3 variable (module-global injection of float/int in chempy.util.parsing); z3 proves the returned
               composition equal to the oracle evaluated on the generated derivation tree, for ALL numeral values.
L3 (Engine X)  CrossHair on the string helpers (_get_charge, _formula_to_parts, _get_leading_integer) with symbolic strings/ints.
Rejection classes: non-element capitalised tokens (finite domain, exhaustive), single-bracket deletions of the skeletons (concrete
replays, reported as sanity, not as solver evidence), contradictory charge marks (L3).
"""
import itertools
import json
import os
import random
import time

import z3

from vlib import env, rx, cxrun
from vlib.zrun import eq_term, wrapper_exc
from vlib.zsym import Real, Int, SymNum, Ctx, lift, model_value

META = {
    "level": "other",
    "explanation": "three-layer bounded symbolic verification of the real parser (see module docstring of checks/C01.py): regexes of the live "
                   "grammar as z3 terms (R), real grammar/parse actions on numeral placeholders with z3 deciding every composition entry (Z), "
                   "CrossHair on the charge/prefix/suffix string helpers (X)",
    "bounds": {"quick": "L1: all code points 0..0x2FF on 2/3-character windows, count windows of 6; L2: ~700 generated skeletons (depth <= 2, "
                        "<= 3 terms per group, elements from an adjacency-critical set of 10, all bracket kinds, hydrates, charges, prefixes, "
                        "suffixes, primes) + 5 hand-written long skeletons (20-60 characters, <= 16 terms), numerals arbitrary positive reals / integers (as VALUES: the digit strings reach the code through the injected int/float; long digit strings only as concrete family witnesses); L3: strings of length <= 4",
               "thorough": "L2: ~42000 skeletons (depth <= 3, <= 4 terms)"},
    "assumptions": [
        "stubs: chempy.util.parsing.float / .int are injected so that every numeral token denotes a z3 variable (lexing of digits is L1/L3)",
        "elements in skeletons are representatives; that every one of the 118 symbols tokenises correctly in every adjacency is L1",
        "composition of the three layers into the end-to-end statement is an informal argument",
        "Python's \\\\d also accepts non-ASCII decimal digits (which float() reads too): outside the claim",
    ],
    "outside": ["unbounded nesting depth", "non-ASCII digits"],
    "trusted_base": ["z3 5.1", "CrossHair", "vlib/rx.py", "vlib/zsym.py", "ref/atomic_weights.json (symbols)"],
}

REF = json.load(open(os.path.join(env.VERIF, "ref", "atomic_weights.json")))
REF_SYMBOLS = [e[0] for e in REF["elements"]]


# ---------------------------------------------------------------------------------------------------- L1
def _collect_regexes():
    import pyparsing as pp
    from chempy.util.parsing import _get_formula_parser

    seen, out = set(), []

    def walk(e):
        if id(e) in seen:
            return
        seen.add(id(e))
        if isinstance(e, pp.Regex):
            out.append(e)
        for attr in ("exprs",):
            for c in getattr(e, attr, []) or []:
                walk(c)
        c = getattr(e, "expr", None)
        if c is not None:
            walk(c)

    walk(_get_formula_parser())
    return out


def task_tokens():
    from chempy.util import parsing
    from chempy.util.periodic import symbols

    t0 = time.time()
    regs = _collect_regexes()
    pats = [r.pattern for r in regs]
    res = dict(engine="R", functions=[env.describe(parsing._get_formula_parser)], obligations=0, discharged=0, violations=[], inconclusive=[],
               queries=0, bounds="code points 0..0x2FF; windows of 2, 3 and 6 characters")
    elem = [r for r in regs if getattr(r, "resultsName", None) == "element"]
    if len(elem) != 1:
        res.update(status="error", detail="element regex not found in the live grammar (%s)" % pats)
        return res
    ep = elem[0].pattern

    def viol(key, desc, replay, soft=False):
        res["violations"].append(dict(key=key, desc=desc, replay_src=replay, soft=soft))

    # (o) the symbols tuple itself equals the reference list (index + 1 = atomic number)
    res["obligations"] += 1
    if list(symbols) == REF_SYMBOLS:
        res["discharged"] += 1
    else:
        viol("tokens:symbols-tuple", "periodic.symbols differs from the reference list", '''
import json
from chempy.util.periodic import symbols
ref = [e[0] for e in json.load(open("/verif/ref/atomic_weights.json"))["elements"]]
sys.exit(0 if list(symbols) == ref else 1)
''')
    # (i) language of the element regex == the 118 reference symbols
    res["obligations"] += 1
    s = z3.String("s")
    sol = z3.Solver()
    sol.set("timeout", 60000)
    lang = z3.Union(*[z3.Re(x) for x in REF_SYMBOLS])
    sol.add(z3.InRe(s, rx.to_re(ep)) != z3.InRe(s, lang))
    r = str(sol.check())
    res["queries"] += 1
    REPLAY_EL = '''
import json
from chempy.util.parsing import formula_to_composition
from chempy.util.periodic import symbols
ref = [e[0] for e in json.load(open("/verif/ref/atomic_weights.json"))["elements"]]
bad = []
for i, sym in enumerate(ref):
    try:
        if formula_to_composition(sym) != {i + 1: 1}: bad.append(sym)
    except Exception as e:
        bad.append("%s raised %r" % (sym, e))
import string
for a in string.ascii_uppercase:
    for b in [""] + list(string.ascii_lowercase):
        t = a + b
        try:
            c = formula_to_composition(t); ok = True
        except Exception:
            ok = False
        if ok != (t in ref):
            bad.append("token %s accepted=%s" % (t, ok))
print(bad[:10]); sys.exit(1 if bad else 0)
'''
    if r == "unsat":
        res["discharged"] += 1
    elif r == "sat":
        w = sol.model()[s].as_string()
        viol("tokens:element-language", "element regex and the reference symbol list differ on %r" % w, REPLAY_EL)
    else:
        res["inconclusive"].append("element language: %s" % r)
    # twin: dropping one symbol from the oracle must be noticed
    sol = z3.Solver()
    sol.add(z3.InRe(s, rx.to_re(ep)) != z3.InRe(s, z3.Union(*[z3.Re(x) for x in REF_SYMBOLS if x != "Og"])))
    twin = str(sol.check()) == "sat"
    # (ii) ordered-choice tokenisation on every 2- and 3-character window
    c = [z3.Int("c%d" % i) for i in range(3)]
    dom = [z3.And(x >= -1, x <= 0x2FF) for x in c] + [z3.Implies(c[0] == -1, c[1] == -1), z3.Implies(c[1] == -1, c[2] == -1)]
    two = z3.Or(*[z3.And(c[0] == ord(x[0]), c[1] == ord(x[1])) for x in REF_SYMBOLS if len(x) == 2])
    one = z3.Or(*[c[0] == ord(x) for x in REF_SYMBOLS if len(x) == 1])
    oracle = z3.If(two, 2, z3.If(one, 1, -1))
    for nwin in (2, 3):
        res["obligations"] += 1
        sol = z3.Solver()
        sol.set("timeout", 120000)
        sol.add(*dom)
        if nwin == 2:
            sol.add(c[2] == -1)
        sol.add(rx.match_len(ep, c[:nwin]) != oracle)
        r = str(sol.check())
        res["queries"] += 1
        if r == "unsat":
            res["discharged"] += 1
        elif r == "sat":
            m = sol.model()
            w = "".join(chr(m.eval(x, model_completion=True).as_long()) for x in c[:nwin] if m.eval(x, model_completion=True).as_long() >= 0)
            viol("tokens:greedy-window", "element token on window %r is not the longest reference symbol" % w, REPLAY_EL)
        else:
            res["inconclusive"].append("window %d: %s" % (nwin, r))
    # (iv) count regex = maximal numeral  digits ('.' digits)?  (ordered choice: decimal alternative first)
    cp = [p for p in pats if "d+" in p and "d*" in p]
    if len(cp) != 1:
        res.update(status="error", detail="count regex not found (%s)" % pats)
        return res
    w = [z3.Int("w%d" % i) for i in range(6)]
    domw = [z3.And(x >= -1, x <= 0x2FF) for x in w] + [z3.Implies(w[i] == -1, w[i + 1] == -1) for i in range(5)]

    def isd(x):
        return z3.And(x >= 48, x <= 57)

    # simpler, explicit oracle by case analysis on k = 0..6 (decimal needs k>=1, '.', >=1 digit)
    cases = []
    for kk in range(0, 7):
        lead = z3.And(*([isd(w[j]) for j in range(kk)] + ([z3.Not(isd(w[kk]))] if kk < 6 else [])))
        if kk >= 1 and kk + 1 < 6:
            for jj in range(1, 6 - kk):
                frac = z3.And(w[kk] == 46, *[isd(w[kk + 1 + t]) for t in range(jj)])
                endf = z3.Not(isd(w[kk + 1 + jj])) if kk + 1 + jj < 6 else z3.BoolVal(True)
                cases.append((z3.And(lead, frac, endf), kk + 1 + jj))
            nofrac = z3.Not(z3.And(w[kk] == 46, isd(w[kk + 1])))
            cases.append((z3.And(lead, nofrac), kk))
        else:
            cases.append((lead, kk))
    orc = z3.IntVal(-7)
    for cond, val in reversed(cases):
        orc = z3.If(cond, z3.IntVal(val), orc)
    res["obligations"] += 1
    sol = z3.Solver()
    sol.set("timeout", 120000)
    sol.add(*domw)
    sol.add(rx.match_len(cp[0], w) != orc)
    r = str(sol.check())
    res["queries"] += 1
    if r == "unsat":
        res["discharged"] += 1
    elif r == "sat":
        m = sol.model()
        ws = "".join(chr(m.eval(x, model_completion=True).as_long()) for x in w if m.eval(x, model_completion=True).as_long() >= 0)
        viol("tokens:count", "count token on %r is not the maximal numeral" % ws, '''
from chempy.util.parsing import formula_to_composition
bad = []
for f, exp in (("H2O", {1: 2, 8: 1}), ("C12H22O11", {6: 12, 1: 22, 8: 11}), ("Ca2.832Fe0.6285", {20: 2.832, 26: 0.6285}), ("H10.5O", {1: 10.5, 8: 1})):
    if formula_to_composition(f) != exp: bad.append((f, formula_to_composition(f)))
print(bad); sys.exit(1 if bad else 0)
''')
    else:
        res["inconclusive"].append("count regex: %s" % r)
    # (v) the other token regexes are the literal spellings of the statement
    res["obligations"] += 1
    expected_other = {r"\{", r"\}", r"\[", r"\]", r"\(", r"\)", r"\@", r"[*']+", r"\((s|l|g|aq|cr)\)"}
    others = set(pats) - {ep, cp[0]}
    if others == expected_other:
        res["discharged"] += 1
    else:
        # a changed token set is a change of the supported notation, not by itself a violation: soft (the replay decides)
        viol("tokens:other-regexes", "bracket/state/prime token set changed: %s" % sorted(others ^ expected_other), REPLAY_EL, soft=True)
    res["twin"] = "violated" if twin else "passed"
    res["solver_s"] = time.time() - t0
    res["sample"] = {"element regex": ep[:60] + "...", "claim": "ordered-choice match length on any window == longest reference symbol prefix"}
    res["status"] = "violation" if res["violations"] else ("inconclusive" if res["inconclusive"] else "discharged")
    return res


# ---------------------------------------------------------------------------------------------------- L2
ELEMS = ["C", "Co", "O", "H", "Hf", "F", "Cs", "Hg", "Cl", "Na"]
PREFIXES = ["", "", "", ".", "alpha-", "theta-", "epsilon-"]
SUFFIXES = ["", "", "(s)", "(l)", "(g)", "(aq)"]


class Gen(object):
    """random derivations of the C01 grammar; numerals are placeholders ('p<k>' nodes) rendered as unique digit strings"""

    def __init__(self, rnd, depth, width):
        self.rnd, self.depth, self.width = rnd, depth, width
        self.nph = 0

    def ph(self, kind):
        self.nph += 1
        return (kind, self.nph)

    def term(self, d):
        r = self.rnd
        cnt = self.ph("cnt") if r.random() < 0.6 else None
        if d > 0 and r.random() < 0.45:
            kind = r.choice(["()", "[]", "{}", "()"])
            return ("grp", kind, self.part(d - 1), cnt)
        return ("el", r.choice(ELEMS), cnt)

    def part(self, d):
        return [self.term(d) for _ in range(self.rnd.randint(1, self.width))]

    def formula(self):
        r = self.rnd
        self.nph = 0
        parts = [(None, self.part(self.depth))]
        for _ in range(r.choice([0, 0, 0, 1, 1, 2])):
            parts.append((self.ph("hyd") if r.random() < 0.7 else None, self.part(max(0, self.depth - 1))))
        sep = r.choice(["..", "·"])
        chg = None
        if r.random() < 0.45:
            chg = (r.choice("+-"), self.ph("chg") if r.random() < 0.6 else None)
        return dict(prefix=r.choice(PREFIXES), parts=parts, sep=sep, charge=chg, suffix=r.choice(SUFFIXES),
                    prime=r.choice(["", "", "", "'", "*", "''"]), caged=(r.random() < 0.07))


def ph_str(p):
    kind, k = p
    if kind == "cnt" and k % 5 == 0:
        return "%d.%d" % (10 + k, k % 10 + 1)
    return str(10 + k)


def render_part(part, tok):
    s = ""
    for t in part:
        if t[0] == "el":
            s += t[1] + (tok(t[2]) if t[2] else "")
        else:
            s += t[1][0] + render_part(t[2], tok) + t[1][1] + (tok(t[3]) if t[3] else "")
    return s


def render(f, tok=None):
    tok = tok or ph_str
    body = ""
    for i, (m, part) in enumerate(f["parts"]):
        if i:
            body += f["sep"] + (tok(m) if m else "")
        body += render_part(part, tok)
    if f["caged"]:
        body = "Li@" + body
    body += f["prime"]
    if f["charge"]:
        body += f["charge"][0] + (tok(f["charge"][1]) if f["charge"][1] else "")
    return f["prefix"] + body + f["suffix"]


def concretise(f, model, vars_):
    """formula string and expected composition with the numerals taken from a solver model (counts rounded to 3 decimals)"""
    from fractions import Fraction

    vals = {}
    for p in placeholders(f):
        v = model_value(model, vars_[ph_str(p)].t) if model is not None else Fraction(ph_str(p))
        if p[0] in ("hyd", "chg"):
            vals[p] = max(1, int(v))
        else:
            q = Fraction(round(float(v) * 1000), 1000)
            vals[p] = q if q > 0 else Fraction(1, 1000)

    def tok(p):
        v = vals[p]
        if isinstance(v, int) or v.denominator == 1:
            return str(int(v))
        return ("%.3f" % float(v)).rstrip("0")

    def val(p):
        v = vals[p]
        return int(v) if (isinstance(v, int) or v.denominator == 1) else float(v)
    return render(f, tok), oracle(f, val)


def oracle(f, val):
    """composition from the derivation tree: sum over occurrences of the product of enclosing multipliers"""
    from chempy.util.periodic import symbols

    comp = {}

    def add(part, mult):
        for t in part:
            m = mult * (val(t[-1]) if t[-1] else 1)
            if t[0] == "el":
                z = REF_SYMBOLS.index(t[1]) + 1
                comp[z] = comp.get(z, 0) + m
            else:
                add(t[2], m)

    for i, (m, part) in enumerate(f["parts"]):
        add(part, val(m) if m else 1)
    if f["caged"]:
        comp[3] = comp.get(3, 0) + 1
    if f["charge"]:
        sign = 1 if f["charge"][0] == "+" else -1
        comp[0] = sign * (val(f["charge"][1]) if f["charge"][1] else 1)
    return comp


def placeholders(f):
    out = []

    def walk(part):
        for t in part:
            if t[-1]:
                out.append(t[-1])
            if t[0] == "grp":
                walk(t[2])

    for m, part in f["parts"]:
        if m:
            out.append(m)
        walk(part)
    if f["charge"] and f["charge"][1]:
        out.append(f["charge"][1])
    return out


def numeral_vars(f):
    vars_, assum = {}, []
    for p in placeholders(f):
        tok = ph_str(p)
        integer = p[0] in ("hyd", "chg")
        v = Int("n_" + tok) if integer else Real("x_" + tok.replace(".", "_"))
        vars_[tok] = v
        assum.append(v.t >= 1 if integer else v.t > 0)
    return vars_, assum


def _run_symbolic(fstr, f, vars_, trunc=False):
    """run the real formula_to_composition with numeral placeholders; returns (got dict, oracle dict)"""
    from chempy.util import parsing

    used = set()

    def var_for(tok):
        used.add(tok)
        return vars_[tok]

    def s_float(x):
        if isinstance(x, str):
            return var_for(x)
        return x if isinstance(x, SymNum) else float(x)

    def s_int(x=0, *a):
        if isinstance(x, str):
            return var_for(x)
        if isinstance(x, SymNum):
            # int() truncates towards zero (identity on integer-sorted placeholders).  The big skeleton tasks keep the identity (the
            # real code only calls int(n) under `n == int(n)`, where both agree, and the extra fork per element costs x25); the
            # L2.trunc task models the truncation on small skeletons so that a changed guard (tolerance, round) is visible
            return x.truncated() if trunc else x
        return int(x, *a)

    parsing.float, parsing.int = s_float, s_int
    try:
        first = parsing.formula_to_composition(fstr)
        # history: the caller owns the returned mapping; mutating it must not influence a later parse of the same text
        snapshot = dict(first)
        first[0] = 99
        first[999] = 1
        got = parsing.formula_to_composition(fstr)
        if set(snapshot) != set(got) or got is first:
            got = dict(got)
            got["__not_fresh__"] = 1
        if trunc and f.get("suffix"):
            # optional argument: a caller-supplied suffix list (here: only this formula's own suffix plus an unrelated one) reads the same
            alt = parsing.formula_to_composition(fstr, suffixes=("(cr)", f["suffix"]))
            if set(alt) != set(got):
                got = dict(got)
                got["__custom_suffixes_differ__"] = 1
            else:
                got = dict(got)
                for k_ in alt:
                    got[("alt", k_)] = alt[k_]
    finally:
        del parsing.float, parsing.int
    exp = oracle(f, lambda p: vars_[ph_str(p)])
    if trunc and f.get("suffix"):
        exp = dict(exp)
        for k_ in list(exp):
            if not isinstance(k_, tuple):
                exp[("alt", k_)] = exp[k_]
    return got, exp


REPLAY_L2 = '''
from chempy.util.parsing import formula_to_composition
from chempy import Substance
f = %(f)r
exp = %(exp)s
try:
    got = formula_to_composition(f)
except Exception as e:
    print("raised %%r" %% (e,)); sys.exit(1)
got2 = Substance.from_formula(f).composition
got[0] = 99; got[999] = 1          # the caller owns the returned mapping
got = formula_to_composition(f)    # a later parse of the same text must not see that
print(f, got, exp)
ok = set(got) == set(exp) and all(abs(got[k] - exp[k]) < 1e-9 * max(1, abs(exp[k])) for k in exp) and got2 == got
for suf in ("(s)", "(l)", "(g)", "(aq)"):
    if f.endswith(suf):
        alt = formula_to_composition(f, suffixes=("(cr)", suf))   # a caller-supplied suffix list reads the same
        ok = ok and alt == got
sys.exit(0 if ok else 1)
'''


def long_flat_skeletons():
    """hand-written LONG skeletons (20-60 characters in one stoichiometric part, elements repeated many times, with and without brackets,
    up to 16 terms): sizes the random generator (<= 3 terms per group) never produces"""
    def flat(spec):
        k = [0]

        def ph():
            k[0] += 1
            return ("cnt", k[0])
        return [("el", sym, ph() if counted else None) for sym, counted in spec]

    def f(part, **kw):
        d = dict(prefix="", parts=[(None, part)], sep="..", charge=None, suffix="", prime="", caged=False)
        d.update(kw)
        return d

    hexanol = [("C", 0), ("H", 1)] + [("C", 0), ("H", 1)] * 5 + [("O", 0), ("H", 0)]
    acid = [("C", 0), ("H", 1)] + [("C", 0), ("H", 1)] * 6 + [("C", 0), ("O", 0), ("O", 0), ("H", 0)]
    mixed = [("Na", 1), ("K", 1), ("Mg", 0), ("Ca", 1), ("Fe", 0), ("Al", 1), ("Si", 0), ("O", 1), ("Na", 0), ("Cl", 1), ("Co", 0), ("C", 0), ("O", 1), ("Fe", 1), ("H", 0), ("Hf", 1)]
    plain = [(s_, 0) for s_ in "C H H H C H H C H H C H H C H H C H H O H".split()]
    out = [f(flat(hexanol)), f(flat(acid), charge=("-", None)), f(flat(mixed), suffix="(s)"), f(flat(plain)),
           f(flat(hexanol)[:8] + [("grp", ("(", ")"), flat(acid)[:6], ("cnt", 40))] + flat(hexanol)[8:], charge=("+", ("chg", 41)))]
    return out


def task_skeletons(seed, n, depth, width, trunc=False, explicit=False):
    from chempy.util import parsing

    rnd = random.Random(seed)
    gen = Gen(rnd, depth, width)
    pool = iter(long_flat_skeletons()) if explicit else None
    if explicit:
        n = len(long_flat_skeletons())
    res = dict(engine="Z", functions=[env.describe(parsing.formula_to_composition), env.describe(parsing._parse_stoich),
                                      env.describe(parsing._get_formula_parser), env.describe(parsing._formula_to_parts),
                                      env.describe(parsing._get_charge), env.describe(parsing._get_leading_integer)],
               obligations=0, discharged=0, violations=[], inconclusive=[], queries=0, paths=0, solver_s=0.0,
               bounds="%d generated skeletons, depth <= %d, <= %d terms per group; numerals: counts any real > 0, hydrate multipliers and charges any integer >= 1" % (n, depth, width))
    seen = set()
    samples = []
    twin_hit = False
    t0 = time.time()
    from vlib.zsym import Ctx as _C
    from vlib.zrun import explore_and_prove

    while len(seen) < n:
        f = next(pool) if pool is not None else gen.formula()
        fstr = render(f)
        if pool is None and (fstr in seen or len(fstr) > 60):
            continue
        seen.add(fstr)
        vars_, assum0 = numeral_vars(f)

        def fn():
            return _run_symbolic(fstr, f, vars_, trunc)

        def goal(p, twin=False):
            if p.kind == "exc":
                return False
            got, exp = p.value
            if set(got) != set(exp):
                return False
            return z3.And(*[eq_term(got[k], exp[k] if not twin else exp[k] + 1) for k in exp])

        o = explore_and_prove(fn, assum0, goal, max_paths=200 if not trunc else 600, deadline_s=60 if not trunc else 120)
        res["obligations"] += o.obligations
        res["discharged"] += o.discharged
        res["queries"] += o.queries
        res["paths"] += o.paths
        res["inconclusive"] += ["%s: %s" % (fstr, i) for i in o.inconclusive]
        if len(samples) < 3:
            samples.append(fstr)
        if not twin_hit:
            ot = explore_and_prove(fn, assum0, lambda p: goal(p, True), max_paths=200, deadline_s=30, max_fail=1)
            twin_hit = bool(ot.failed)
        for p, m, g in o.failed[:1]:
            if len(res["violations"]) < 4:
                cstr, cexp = concretise(f, m, vars_)
                # the numerals reach the code through the injected int()/float(); a variant that reads them another way (a lookup table,
                # a regex) leaves the abstraction, and the solver's values then say nothing: when the real code is consistent at the
                # model's own string, other members of the SAME skeleton family (long numerals) are tried concretely and the
                # model-based candidate becomes soft (replay decides, INCONCLUSIVE when nothing reproduces)
                bypass = _consistent(cstr, cexp)
                if bypass:
                    for wstr, wexp in family_witnesses(f):
                        if not _consistent(wstr, wexp):
                            res["violations"].append(dict(key="skeleton:family", desc="%r -> composition differs from the derivation tree" % wstr,
                                                          replay_src=REPLAY_L2 % dict(f=wstr, exp=repr(wexp))))
                            break
                res["violations"].append(dict(key="skeleton:%s" % ("exc" if p.kind == "exc" else "composition"), soft=bool(wrapper_exc(p.value) or bypass),
                                              desc="%r -> %s" % (cstr, "raised %r" % (p.value,) if p.kind == "exc" else "composition differs from the derivation tree"),
                                              replay_src=REPLAY_L2 % dict(f=cstr, exp=repr(cexp))))
    res["solver_s"] = time.time() - t0
    res["twin"] = "violated" if twin_hit else "passed"
    res["sample"] = {"skeletons": samples, "numerals": "each digit string is a placeholder bound to a z3 variable"}
    res["status"] = "violation" if res["violations"] else ("inconclusive" if res["inconclusive"] else "discharged")
    return res


def _consistent(fstr, exp):
    """the real code (no injection) on a concrete string agrees with the expected composition"""
    from chempy.util.parsing import formula_to_composition
    try:
        got = formula_to_composition(fstr)
    except Exception:
        return False
    return set(got) == set(exp) and all(abs(got[k] - exp[k]) < 1e-9 * max(1, abs(exp[k])) for k in exp)


def family_witnesses(f):
    """members of a skeleton's family with LONG numerals (4-7 digit counts, decimals with long integer parts); multipliers and charges small"""
    for base, step in ((1000, 7), (123456, 11), (9999999, 1)):
        def num(p, base=base, step=step):
            kind, k = p
            if kind in ("hyd", "chg"):
                return 2 + k % 3
            return base + step * k + (0.5 if k % 5 == 0 else 0)

        def tok(p):
            v = num(p)
            return str(v) if isinstance(v, int) else ("%.1f" % v)
        yield render(f, tok), oracle(f, num)


def _concrete_oracle(f):
    def val(p):
        s = ph_str(p)
        return float(s) if "." in s else int(s)
    return oracle(f, val)


def task_reject(seed, n):
    """replay-level sanity (concrete, not solver evidence): every single-bracket deletion of a bracketed skeleton is rejected;
    every capitalised two-letter token is accepted iff it is an element symbol (finite domain, exhaustive)"""
    import string
    from chempy.util.parsing import formula_to_composition

    rnd = random.Random(seed + 99)
    gen = Gen(rnd, 2, 3)
    bad = []
    bad_strings = []
    nchecked = 0
    for a in string.ascii_uppercase:
        for b in [""] + list(string.ascii_lowercase):
            t = a + b
            try:
                formula_to_composition(t)
                ok = True
            except Exception:
                ok = False
            nchecked += 1
            if ok != (t in REF_SYMBOLS):
                bad.append("token %s accepted=%s" % (t, ok))
                if ok:
                    bad_strings.append(t)
    k = 0
    while k < n:
        f = gen.formula()
        s = render(f)
        idxs = [i for i, ch in enumerate(s) if ch in "([{)]}" and not s[i:].startswith(("(s)", "(l)", "(g)", "(aq)")) and not (i >= 2 and s[i - 2:i + 1] in ("(s)", "(l)", "(g)")) and not (i >= 3 and s[i - 3:i + 1] == "(aq)")]
        if not idxs:
            continue
        k += 1
        i = rnd.choice(idxs)
        t = s[:i] + s[i + 1:]
        try:
            formula_to_composition(t)
            bad.append("unbalanced %r (from %r) accepted" % (t, s))
            bad_strings.append(t)
        except Exception:
            pass
        nchecked += 1
    for t in ("Na+Cl-", "Fe+3-", "Fe+-3", "Fe++", "Cl--", "Fe/3+"):
        try:
            formula_to_composition(t)
            bad.append("contradictory charge %r accepted" % t)
            bad_strings.append(t)
        except Exception:
            pass
        nchecked += 1
    res = dict(engine="Z", functions=[], obligations=1, discharged=0 if bad else 1, violations=[], twin="n/a",
               bounds="702 capitalised tokens (exhaustive) + %d bracket deletions + 6 contradictory charge strings (concrete replays)" % n,
               sample={"checked": nchecked, "kind": "replay-level sanity, not solver evidence"})
    if bad:
        res["violations"].append(dict(key="reject:%s" % bad[0].split()[0], desc="; ".join(bad[:3]), replay_src='''
from chempy.util.parsing import formula_to_composition
bad = []
for t in %r:
    try:
        formula_to_composition(t); bad.append(t)
    except Exception:
        pass
print("accepted although ill-formed:", bad); sys.exit(1 if bad else 0)
''' % bad_strings[:8]))
    res["status"] = "violation" if bad else "discharged"
    return res


def task_lexing(tier, only):
    from chempy.util import parsing

    return cxrun.run_harness("cx/C01_lexing.py", timeout=280 if tier == "quick" else 1500, only=only,
                             functions=[env.describe(parsing._get_charge), env.describe(parsing._formula_to_parts), env.describe(parsing._get_leading_integer)],
                             replay_note="outer-layer lexing")


def tasks(tier, seed):
    ts = [dict(id="C01.L1.tokens", fn="task_tokens", kwargs={}, timeout=900)]
    n, depth, width = (700, 2, 3) if tier == "quick" else (42000, 3, 4)
    nt = 14
    for i in range(nt):
        ts.append(dict(id="C01.L2.skeletons.%02d" % i, fn="task_skeletons", kwargs=dict(seed=seed * 1000 + i, n=n // nt, depth=depth, width=width),
                       timeout=3000))
    for i in range(2 if tier == "quick" else 8):
        if i == 0:
            ts.append(dict(id="C01.L2.long", fn="task_skeletons", kwargs=dict(seed=seed, n=5, depth=1, width=1, explicit=True), timeout=1200))
        ts.append(dict(id="C01.L2.trunc.%02d" % i, fn="task_skeletons", kwargs=dict(seed=seed * 1000 + 500 + i, n=25 if tier == "quick" else 60, depth=2, width=2,
                                                                              trunc=True), timeout=3000))
    ts.append(dict(id="C01.reject", fn="task_reject", kwargs=dict(seed=seed, n=200), timeout=600))
    for h in ("_h_get_charge", "_h_charge_tail", "_h_charge_tail_junk", "_h_parts_all_prefixes", "_h_parts_greek_radical", "_h_leading_integer"):
        ts.append(dict(id="C01.L3.%s" % h[3:], fn="task_lexing", kwargs=dict(tier=tier, only=h), timeout=5000))
    return ts
