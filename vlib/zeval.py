"""Numeric evaluation of z3 terms (with the transcendental UFs interpreted by mpmath), used for
(a) translator validation: the term produced by symbolic execution, evaluated at a test vector, must agree with
    the real function called on the same numbers, and
(b) turning a solver model of an abstracted (UF) query into a concrete witness before it is replayed."""
import fractions

import mpmath
import z3

mpmath.mp.dps = 40

_FUN = {
    "exp": mpmath.exp, "log": mpmath.log, "sqrt": mpmath.sqrt, "tanh": mpmath.tanh, "atanh": mpmath.atanh,
    "cos": mpmath.cos, "sin": mpmath.sin, "log10": mpmath.log10, "cosh": mpmath.cosh, "sinh": mpmath.sinh,
    "pow": lambda b, e: mpmath.power(b, e),
}


def zeval(t, env, memo=None):
    """env: {variable name: number}. Returns mpf / bool."""
    memo = {} if memo is None else memo
    i = t.get_id()
    if i in memo:
        return memo[i]
    r = _zeval(t, env, memo)
    memo[i] = r
    return r


def _zeval(t, env, memo):
    if z3.is_int_value(t):
        return mpmath.mpf(t.as_long())
    if z3.is_rational_value(t):
        return mpmath.mpf(t.numerator_as_long()) / mpmath.mpf(t.denominator_as_long())
    if z3.is_true(t):
        return True
    if z3.is_false(t):
        return False
    k = t.decl().kind()
    ch = t.children()
    if k == z3.Z3_OP_UNINTERPRETED:
        name = t.decl().name()
        if not ch:
            v = env[name]
            if isinstance(v, fractions.Fraction):
                return mpmath.mpf(v.numerator) / mpmath.mpf(v.denominator)
            return v if isinstance(v, bool) else mpmath.mpf(v)
        return _FUN[name](*[zeval(c, env, memo) for c in ch])
    if k == z3.Z3_OP_ITE:
        return zeval(ch[1], env, memo) if zeval(ch[0], env, memo) else zeval(ch[2], env, memo)
    a = [zeval(c, env, memo) for c in ch]
    if k == z3.Z3_OP_ADD:
        return mpmath.fsum(a)
    if k == z3.Z3_OP_MUL:
        return mpmath.fprod(a)
    if k == z3.Z3_OP_SUB:
        r = a[0]
        for x in a[1:]:
            r = r - x
        return r
    if k == z3.Z3_OP_UMINUS:
        return -a[0]
    if k == z3.Z3_OP_DIV:
        return a[0] / a[1]
    if k == z3.Z3_OP_IDIV:
        return mpmath.floor(a[0] / a[1]) if a[1] > 0 else mpmath.ceil(a[0] / a[1])
    if k == z3.Z3_OP_MOD:
        return a[0] - a[1] * (mpmath.floor(a[0] / a[1]) if a[1] > 0 else mpmath.ceil(a[0] / a[1]))
    if k == z3.Z3_OP_POWER:
        return mpmath.power(a[0], a[1])
    if k in (z3.Z3_OP_TO_REAL, z3.Z3_OP_TO_INT):
        return a[0] if k == z3.Z3_OP_TO_REAL else mpmath.floor(a[0])
    if k == z3.Z3_OP_LE:
        return a[0] <= a[1]
    if k == z3.Z3_OP_LT:
        return a[0] < a[1]
    if k == z3.Z3_OP_GE:
        return a[0] >= a[1]
    if k == z3.Z3_OP_GT:
        return a[0] > a[1]
    if k == z3.Z3_OP_EQ:
        return a[0] == a[1]
    if k == z3.Z3_OP_DISTINCT:
        return len(set(a)) == len(a)
    if k == z3.Z3_OP_AND:
        return all(a)
    if k == z3.Z3_OP_OR:
        return any(a)
    if k == z3.Z3_OP_NOT:
        return not a[0]
    if k == z3.Z3_OP_IMPLIES:
        return (not a[0]) or a[1]
    raise NotImplementedError("zeval: %s" % t.decl())


def close(a, b, rel=1e-12, abs_=1e-30):
    a, b = mpmath.mpf(a), mpmath.mpf(b)
    return abs(a - b) <= max(abs_, rel * max(abs(a), abs(b)))
