"""CrossHair harnesses for C20: power-of-ten renderers read back as (significand or 1) x 10^exponent."""
from chempy.printing.numbers import _latex_pow_10, _unicode_pow_10, _html_pow_10, _number_to_X
from chempy.util.parsing import _unicode_sup

SIGS = ("1", "1.0", "2.5", "-1", "-1.0", "9.9996", "-3.25", "1.00", "10")
_SUP_INV = {v: k for k, v in _unicode_sup.items()}


def _mant(e: int) -> str:
    # what %g prints after the 'e': sign and at least two digits
    return ("+" if e >= 0 else "-") + ("%02d" % abs(e))


def _latex_one(e, sig):
    out = _latex_pow_10(sig, _mant(e))
    if sig in ("1", "1.0"):
        head, tail = "", out
    else:
        if not out.startswith(sig + chr(92) + "cdot "):
            return False
        head, tail = sig, out[len(sig) + 6:]
    if not (tail.startswith("10^{") and tail.endswith("}")):
        return False
    return int(tail[4:-1]) == e and tail[4:-1] == str(e)


def _unicode_one(e, sig):
    out = _unicode_pow_10(sig, _mant(e))
    if sig in ("1", "1.0"):
        tail = out
    else:
        if not out.startswith(sig + u"·10"):
            return False
        tail = out[len(sig) + 1:]
    if not tail.startswith("10"):
        return False
    sup = tail[2:]
    back = "".join(_SUP_INV.get(ch, "?") for ch in sup)
    return back == str(e)


def _html_one(e, sig):
    out = _html_pow_10(sig, _mant(e))
    if sig in ("1", "1.0"):
        tail = out
    else:
        if not out.startswith(sig + "&sdot;"):
            return False
        tail = out[len(sig) + 6:]
    return tail == "10<sup>" + str(e) + "</sup>"


def _split_one(e, sig, with_e):
    flt = sig + "e" + _mant(e) if with_e else sig
    calls = []

    def pow10(s, m):
        calls.append((s, m))
        return "<" + s + "|" + m + ">"

    out = _number_to_X(1.5, None, None, lambda mag: flt, lambda u: "UNIT", pow10)
    if with_e:
        return out == "<" + sig + "|" + _mant(e) + ">" and calls == [(sig, _mant(e))]
    return out == sig and calls == []


def _h_latex(e: int) -> bool:
    """
    pre: -300 <= e <= 300
    post: _
    """
    return all([_latex_one(e, sig) for sig in SIGS])


def _plain_mant(e):
    # the spelling written by "e%d" (uncertainty layout): no plus sign, no zero padding
    return str(e)


def _h_unpadded_exponent(e: int) -> bool:
    """
    pre: -300 <= e <= 300
    post: _
    """
    m = _plain_mant(e)
    ok = _latex_pow_10("2.5(12)", m) == "2.5(12)" + chr(92) + "cdot 10^{" + str(e) + "}"
    ok = ok and _html_pow_10("2.5(12)", m) == "2.5(12)&sdot;10<sup>" + str(e) + "</sup>"
    u = _unicode_pow_10("2.5(12)", m)
    ok = ok and u.startswith("2.5(12)·10") and "".join(_SUP_INV.get(ch, "?") for ch in u[len("2.5(12)·10"):]) == str(e)
    return ok


def _h_unicode(e: int) -> bool:
    """
    pre: -300 <= e <= 300
    post: _
    """
    return all([_unicode_one(e, sig) for sig in SIGS])


def _h_html(e: int) -> bool:
    """
    pre: -300 <= e <= 300
    post: _
    """
    return all([_html_one(e, sig) for sig in SIGS])


def _h_number_to_X(e: int) -> bool:
    """
    pre: -300 <= e <= 300
    post: _
    """
    return all([_split_one(e, sig, w) for sig in SIGS[:4] for w in (True, False)])
