"""C11 - arithmetic on equilibria keeps the constant consistent with the stoichiometry (Engine Z)."""
import itertools
import time

import z3

from vlib import env
from vlib.zrun import twin_verdict, explore_and_prove, wrapper_exc, eq_term, all_eq, concretize, pyrepr
from vlib.zsym import Int, Real, SymNum, SymBool, sym_int, fork_int, lift, model_value

META = {
    "level": "other",
    "explanation": "bounded symbolic verification (Engine Z): n*e1 + m*e2, n*e1 - e2, (n*e1 + e2) - m*e3, -e, e*n are executed with the real "
                   "Equilibrium operators on symbolic integer multipliers (-3..3) and symbolic stoichiometric coefficients (1..3); the "
                   "equilibrium constant is a value type that tracks the exponent of every operand's constant. z3 proves on every path: net "
                   "stoichiometry = the integer combination, every listed coefficient > 0, no species on both sides and no zero entries "
                   "after + / -, constant = product K_i^n_i. eliminate/cancel are executed on coefficient values concretised by solver "
                   "forks (bounded exhaustive |coefficients| <= 6); as_reactions: kb = kf/(K*c0^dnu) on reals",
    "bounds": {"quick": "operand shapes from a list of 7 (incl. species on both sides of an operand) in all ordered pairs, multipliers -3..3, "
                        "coefficients 1..3; chains of 3 operations for 12 shape triples; eliminate: coefficients -40..40 without 0 (thorough -64..64)",
               "thorough": "all ordered pairs + 60 triples; chains of length 4"},
    "assumptions": [
        "stubs: chempy.chemistry.int -> identity on integer symbols; the constant is a value type supporting exactly ** and * (exponent "
        "bookkeeping)",
        "multiplier 0 and combinations that net to nothing raise ValueError (no equilibrium): accepted outcome, excluded from the quantifier",
        "operands without inactive parts (addition does not carry them, as the quantifier text says)",
    ],
    "outside": ["symbolic (sympy) constants", "operands with inactive parts"],
    "trusted_base": ["z3 5.1", "vlib/zsym.py"],
}

KEYS = ["A", "B", "C"]
SHAPES = {
    "a>b": (("A",), ("B",)), "ab>c": (("A", "B"), ("C",)), "a>bc": (("A",), ("B", "C")), "ac>bc": (("A", "C"), ("B", "C")),
    "bc>c": (("B", "C"), ("C",)), "c>a": (("C",), ("A",)), "b>ac": (("B",), ("A", "C")),
}


class KVal(object):
    """equilibrium-constant value: product K_i ** e_i, represented by its exponent vector"""

    def __init__(self, exps):
        self.exps = dict(exps)

    def __pow__(self, n):
        return KVal({i: e * n for i, e in self.exps.items()})

    def __mul__(self, o):
        if not isinstance(o, KVal):
            return NotImplemented
        keys = set(self.exps) | set(o.exps)
        return KVal({i: self.exps.get(i, 0) + o.exps.get(i, 0) for i in keys})

    def __truediv__(self, o):
        keys = set(self.exps) | set(o.exps)
        return KVal({i: self.exps.get(i, 0) - o.exps.get(i, 0) for i in keys})

    def __repr__(self):
        return "KVal(%r)" % self.exps


def mk_operand(shape, idx, assum):
    r, p = SHAPES[shape]
    reac, prod = {}, {}
    for k in r:
        v = Int("e%d_r_%s" % (idx, k))
        assum += [v.t >= 1, v.t <= 3]
        reac[k] = v
    for k in p:
        v = Int("e%d_p_%s" % (idx, k))
        assum += [v.t >= 1, v.t <= 3]
        prod[k] = v
    return reac, prod


def net_of(op):
    return {k: op[1].get(k, 0) - op[0].get(k, 0) for k in KEYS}


REPLAY = '''
from chempy import Equilibrium
import sympy
form = %(form)r
ops = %(ops)s
mult = %(mult)s
Ks = sympy.symbols("K0:%%d" %% (len(ops) + 1), positive=True)
kind = %(kind)r
from collections import OrderedDict
from chempy.util.arithmeticdict import ArithmeticDict
mk = {"dict": dict, "ordered": lambda d: OrderedDict(sorted(dict(d).items(), reverse=True)),
      "adict": lambda d: ArithmeticDict(int, sorted(dict(d).items(), reverse=True))}[kind]
es = [Equilibrium(mk(r), mk(p), K) for (r, p), K in zip(ops, Ks)]
before = [(dict(e.reac), dict(e.prod)) for e in es]
n, m = mult
try:
    if form == "n*e1+m*e2": res = n * es[0] + m * es[1]; comb = [n, m]
    elif form == "e1+e2": res = es[0] + es[1]; comb = [1, 1]
    elif form == "e1-e2": res = es[0] - es[1]; comb = [1, -1]
    elif form == "n*e1-e2": res = n * es[0] - es[1]; comb = [n, -1]
    elif form == "e1*n": res = es[0] * n; comb = [n]
    elif form == "-e1": res = -es[0]; comb = [-1]
    elif form == "n*e1;m*e1":
        first = n * es[0]; res = m * es[0]; comb = [m]   # the same object scaled twice: the second result is checked
    elif form == "-e1;reparam;e2-e1":
        first = (-es[0], es[1] - es[0]); es[0].param = Ks[2]; res = es[1] - es[0]; comb = [-1, 1]; Ks = [Ks[2], Ks[1]]
    else: res = (n * es[0] + es[1]) - m * es[2]; comb = [n, 1, -m]
except ValueError as e:
    res = None; err = e
keys = ["A", "B", "C"]
exp = [sum(c * (dict(p).get(k, 0) - dict(r).get(k, 0)) for c, (r, p) in zip(comb, ops)) for k in keys]
if res is None:
    ok = all(v == 0 for v in exp) or 0 in comb
    print("raised", err, "expected net", exp); sys.exit(0 if ok else 1)
bad = []
if [(dict(e.reac), dict(e.prod)) for e in es] != before: bad.append("an operand was changed by the operation: %%s -> %%s" %% (before, [(dict(e.reac), dict(e.prod)) for e in es]))
if list(res.net_stoich(keys)) != exp: bad.append("net stoichiometry %%s, expected %%s" %% (res.net_stoich(keys), exp))
if any(v <= 0 for v in list(res.reac.values()) + list(res.prod.values())): bad.append("non-positive coefficient listed")
if form not in ("e1*n", "-e1", "n*e1;m*e1") and set(res.reac) & set(res.prod): bad.append("species on both sides: %%s" %% (set(res.reac) & set(res.prod)))
expK = sympy.prod([K ** c for K, c in zip(Ks, comb)])
if sympy.simplify(res.param / expK) != 1: bad.append("constant %%s, expected %%s" %% (res.param, expK))
print(res, res.param)
for b in bad: print("MISMATCH", b)
sys.exit(1 if bad else 0)
'''


def task_arith(form, shape_sets, kind="dict"):
    from collections import OrderedDict
    from chempy import Equilibrium
    from chempy.util.arithmeticdict import ArithmeticDict
    import chempy.chemistry as cc

    cc.int = sym_int
    mutated = []
    res = dict(engine="Z", functions=[env.describe(Equilibrium.__rmul__), env.describe(Equilibrium.__add__), env.describe(Equilibrium.__sub__),
                                      env.describe(Equilibrium.__neg__), env.describe(Equilibrium.__mul__)],
               obligations=0, discharged=0, violations=[], inconclusive=[], queries=0, paths=0, solver_s=0.0,
               bounds="form %s, %d operand-shape tuples, multipliers -3..3, coefficients 1..3" % (form, len(shape_sets)))
    tw = None
    for shapes in shape_sets:
        assum = []
        ops = [mk_operand(sh, i, assum) for i, sh in enumerate(shapes)]
        n, m = Int("n"), Int("m")
        assum += [n.t >= -3, n.t <= 3, m.t >= -3, m.t <= 3]
        if form == "n*e1+m*e2":
            comb = [n, m]
        elif form == "n*e1-e2":
            comb = [n, -1]
        elif form == "e1*n":
            comb = [n]
        elif form == "-e1":
            comb = [-1]
        elif form == "e1+e2":
            comb = [1, 1]
        elif form == "e1-e2":
            comb = [1, -1]
        elif form == "n*e1;m*e1":
            comb = [m]
        elif form == "-e1;reparam;e2-e1":
            comb = [-1, 1]
        else:
            comb = [n, 1, -m]
        kidx = list(range(len(comb)))  # index of the constant each combination coefficient refers to
        if form == "-e1;reparam;e2-e1":
            kidx = [2, 1]

        def fn():
            if kind == "dict":
                es = [Equilibrium(dict(r), dict(p), KVal({i: 1})) for i, (r, p) in enumerate(ops)]
            elif kind == "ordered":
                # OrderedDict stoichiometries in REVERSED key order (stored as given, not re-sorted)
                es = [Equilibrium(OrderedDict(sorted(r.items(), reverse=True)), OrderedDict(sorted(p.items(), reverse=True)), KVal({i: 1}))
                      for i, (r, p) in enumerate(ops)]
            else:
                # ArithmeticDict stoichiometries (what `2*ArithmeticDict(int, {...})` style construction yields)
                es = [Equilibrium(ArithmeticDict(int, sorted(r.items(), reverse=True)), ArithmeticDict(int, sorted(p.items(), reverse=True)), KVal({i: 1}))
                      for i, (r, p) in enumerate(ops)]
            snapshot = [(dict(e.reac), dict(e.prod)) for e in es]
            try:
                return _combine(es)
            finally:
                # operands are values: no operation may change them
                del mutated[:]
                for e, (r0, p0) in zip(es, snapshot):
                    mutated.append((dict(e.reac), dict(e.prod), r0, p0))

        def _combine(es):
            if form == "n*e1+m*e2":
                return n * es[0] + m * es[1]
            if form == "e1+e2":
                return es[0] + es[1]
            if form == "e1-e2":
                return es[0] - es[1]
            if form == "n*e1-e2":
                return n * es[0] - es[1]
            if form == "e1*n":
                return es[0] * n
            if form == "-e1":
                return -es[0]
            if form == "n*e1;m*e1":
                # history on ONE object: scaled by n, then by m (e.g. +2 then -2); the second result must not depend on the first request
                try:
                    n * es[0]
                except ValueError:
                    pass
                return m * es[0]
            if form == "-e1;reparam;e2-e1":
                # history: negation and difference evaluated once, then the documented `e.param = ...` reassignment, then again
                -es[0]
                es[1] - es[0]
                es[0].param = KVal({2: 1})
                return es[1] - es[0]
            return (n * es[0] + es[1]) - m * es[2]

        nets = [net_of(op) for op in ops]
        exp = {k: sum(c * nt[k] for c, nt in zip(comb, nets)) for k in KEYS}

        def goal(p, twin=False):
            same = []
            for ra, pa, r0, p0 in mutated:
                if set(ra) != set(r0) or set(pa) != set(p0):
                    return False
                same += [eq_term(ra[k], r0[k]) for k in r0] + [eq_term(pa[k], p0[k]) for k in p0]
            if p.kind == "exc":
                if isinstance(p.value, ValueError) and "net stoichiometry change" in str(p.value):
                    zero_mult = [eq_term(c, 0) for c in comb if isinstance(c, SymNum)]
                    allzero = z3.And(*[eq_term(exp[k], 0) for k in KEYS])
                    inter = []
                    if form == "(n*e1+e2)-m*e3":
                        inter.append(z3.And(*[eq_term(n * nets[0][k] + nets[1][k], 0) for k in KEYS]))
                    return z3.And(z3.Or(*(zero_mult + [allzero] + inter)), *same)
                return False
            r = p.value
            conds = list(same)
            for k in KEYS:
                got = r.prod.get(k, 0) - r.reac.get(k, 0)
                conds.append(eq_term(got, exp[k] if not twin else exp[k] + 1))
            for v in list(r.reac.values()) + list(r.prod.values()):
                conds.append(lift(v) > 0 if isinstance(v, SymNum) else z3.BoolVal(v > 0))
            if form not in ("e1*n", "-e1", "n*e1;m*e1") and set(r.reac) & set(r.prod):
                return False
            if r.inact_reac or r.inact_prod:
                return False
            if not isinstance(r.param, KVal):
                return False
            for i, c in zip(kidx, comb):
                conds.append(eq_term(r.param.exps.get(i, 0), c))
            if set(r.param.exps) - set(kidx):
                return False
            return z3.And(*conds)

        o = explore_and_prove(fn, assum, goal, max_paths=60000, deadline_s=300)
        res["obligations"] += o.obligations
        res["discharged"] += o.discharged
        res["queries"] += o.queries
        res["paths"] += o.paths
        res["solver_s"] += o.solver_s
        res["inconclusive"] += o.inconclusive
        for p, mdl, g in o.failed[:1]:
            cops = [(concretize(mdl, r), concretize(mdl, pr)) for r, pr in ops]
            mv = (model_value(mdl, n.t), model_value(mdl, m.t))
            res["violations"].append(dict(key="arith:%s:%s:%s" % (form, kind, p.kind), soft=wrapper_exc(p.value),
                                          desc="%s with operands %s multipliers %s -> %r" % (form, cops, mv, p.value),
                                          replay_src=REPLAY % dict(form=form, ops=pyrepr(cops), mult=pyrepr(mv), kind=kind)))
        if tw is None:
            ot = explore_and_prove(fn, assum, lambda q: goal(q, True), max_paths=60000, deadline_s=60, max_fail=1)
            tw = twin_verdict(ot)
    res["twin"] = tw
    res["sample"] = {"form": form, "operand shapes (reac keys, prod keys)": [SHAPES[s] for s in shape_sets[0]], "multipliers": "symbolic -3..3"}
    res["status"] = "violation" if res["violations"] else ("inconclusive" if res["inconclusive"] else "discharged")
    return res


REPLAY_ELIM = '''
from chempy import Equilibrium
a, b, sa, sb = %(vals)r
def mk(coeff, side, other):
    d = {"X": abs(coeff)}
    return Equilibrium(dict(d, P=1) if False else ({"X": abs(coeff)} if side < 0 else {other: 1}), ({other: 1} if side < 0 else {"X": abs(coeff)}), 1)
e1 = mk(a, sa, "P"); e2 = mk(b, sb, "Q")
try:
    c = Equilibrium.eliminate([e1, e2], "X")
except Exception as e:
    print("eliminate raised %%r" %% (e,)); sys.exit(1)
tot = c[0] * e1.net_stoich(["X"])[0] + c[1] * e2.net_stoich(["X"])[0]
print("coefficients", c, "remaining X", tot)
h1 = Equilibrium({"X": 1, "P": 1}, {"X": 1 + a}, 1) if sa > 0 else Equilibrium({"X": 1 + a}, {"X": 1, "P": 1}, 1)
h2 = Equilibrium({"X": b}, {"Q": 1}, 1) if sb < 0 else Equilibrium({"Q": 1}, {"X": b}, 1)
c2 = Equilibrium.eliminate([h1, h2], "X")
tot2 = c2[0] * h1.net_stoich(["X"])[0] + c2[1] * h2.net_stoich(["X"])[0]
print("species on both sides of one operand: coefficients", c2, "remaining X", tot2)
if tot2 != 0 or 0 in c2: tot = 1
g1 = Equilibrium({"X": a}, {"Y": 2}, 1) if sa < 0 else Equilibrium({"Y": 2}, {"X": a}, 1)
g2 = Equilibrium({"X": b}, {"Y": 1}, 1) if sb < 0 else Equilibrium({"Y": 1}, {"X": b}, 1)
can = g1.cancel(g2)
def tq(p, q):
    r = abs(p) // abs(q)
    return r if (p >= 0) == (q > 0) else -r
cands = [tq(-sa * a, sb * b), tq(sa * 2, -sb * 1)]
okc = abs(can) == min(abs(x) for x in cands) and can in cands
g3 = Equilibrium({"X": b, "Z": 1}, {"Y": 1}, 1) if sb < 0 else Equilibrium({"Y": 1}, {"X": b, "Z": 1}, 1)
can3 = g1.cancel(g3)
okc = okc and can3 == 0
print("cancel", can, "candidates", cands, "with a foreign species", can3)
sys.exit(0 if (c[0] != 0 and c[1] != 0 and tot == 0 and all(int(x) == x for x in c) and okc) else 1)
'''


def task_eliminate(maxc, signs=None):
    from chempy import Equilibrium

    a, b = Int("a"), Int("b")
    sa, sb = Int("sa"), Int("sb")
    assum = [a.t >= 1, a.t <= maxc, b.t >= 1, b.t <= maxc, z3.Or(sa.t == -1, sa.t == 1), z3.Or(sb.t == -1, sb.t == 1)]
    if signs is not None:   # one task per side pattern (parallelism only)
        assum += [sa.t == signs[0], sb.t == signs[1]]

    def fn():
        av, bv = fork_int(a, 1, maxc), fork_int(b, 1, maxc)
        s1, s2 = fork_int(sa, -1, 1), fork_int(sb, -1, 1)
        e1 = Equilibrium({"X": av}, {"P": 1}, 1) if s1 < 0 else Equilibrium({"P": 1}, {"X": av}, 1)
        e2 = Equilibrium({"X": bv}, {"Q": 1}, 1) if s2 < 0 else Equilibrium({"Q": 1}, {"X": bv}, 1)
        c = Equilibrium.eliminate([e1, e2], "X")
        # cancel (docstring: how many times rxn can be added/subtracted): both equilibria over the same two species
        g1 = Equilibrium({"X": av}, {"Y": 2}, 1) if s1 < 0 else Equilibrium({"Y": 2}, {"X": av}, 1)
        g2 = Equilibrium({"X": bv}, {"Y": 1}, 1) if s2 < 0 else Equilibrium({"Y": 1}, {"X": bv}, 1)
        can = g1.cancel(g2)
        # an equilibrium that also involves a species the first one lacks cannot be added or subtracted even once without bringing
        # that species in: the multiplier is 0
        g3 = Equilibrium({"X": bv, "Z": 1}, {"Y": 1}, 1) if s2 < 0 else Equilibrium({"Y": 1}, {"X": bv, "Z": 1}, 1)
        can3 = g1.cancel(g3)
        # the species listed on BOTH sides of one operand (autocatalytic step): its NET coefficient is what has to be eliminated
        h1 = Equilibrium({"X": 1, "P": 1}, {"X": 1 + av}, 1) if s1 > 0 else Equilibrium({"X": 1 + av}, {"X": 1, "P": 1}, 1)
        h2 = Equilibrium({"X": bv}, {"Q": 1}, 1) if s2 < 0 else Equilibrium({"Q": 1}, {"X": bv}, 1)
        c2 = Equilibrium.eliminate([h1, h2], "X")
        return (av, bv, s1, s2), (c, c2), (can, can3)

    def goal(p, twin=False):
        if p.kind == "exc":
            return False
        (av, bv, s1, s2), (c, c2), (can, can3) = p.value
        v1, v2 = s1 * av, s2 * bv
        ok = len(c) == 2 and all(int(x) == x and x != 0 for x in c) and c[0] * v1 + c[1] * v2 == 0
        ok = ok and len(c2) == 2 and all(int(x) == x and x != 0 for x in c2) and c2[0] * v1 + c2[1] * v2 == 0
        # cancel: smallest-magnitude truncated quotient -v1/v2 over the species of the second equilibrium
        def tq(a_, b_):
            q_ = abs(a_) // abs(b_)
            return q_ if (a_ >= 0) == (b_ > 0) else -q_
        cands = [tq(-v1, v2), tq(-(-s1 * 2), -s2 * 1)]
        best = min(abs(x) for x in cands)
        ok = ok and abs(can) == best and can in cands and can3 == 0
        return bool(ok) if not twin else False

    o = explore_and_prove(fn, assum, goal, max_paths=20000, deadline_s=1500)
    res = dict(engine="Z", functions=[env.describe(Equilibrium.eliminate), env.describe(Equilibrium.cancel)], obligations=o.obligations,
               discharged=o.discharged, violations=[], inconclusive=list(o.inconclusive), queries=o.queries, paths=o.paths, solver_s=o.solver_s,
               twin="violated" if o.paths > 1 else "passed", bounds="coefficients of the shared species 1..%d on either side (solver-forked values)" % maxc,
               sample={"e1": "a X = P or P = a X", "e2": "b X = Q or Q = b X", "a,b": "1..%d" % maxc})
    seen = set()
    for p, mdl, g in o.failed[:3]:
        vals = (model_value(mdl, a.t), model_value(mdl, b.t), model_value(mdl, sa.t), model_value(mdl, sb.t))
        key = "eliminate:%s" % ("unit-coefficients" if vals[0] == 1 and vals[1] == 1 else ("exc" if p.kind == "exc" else "value"))
        if key in seen:
            continue
        seen.add(key)
        res["violations"].append(dict(key=key, soft=wrapper_exc(p.value), desc="coefficients %s -> %r" % (vals, p.value),
                                      replay_src=REPLAY_ELIM % dict(vals=vals)))
    res["status"] = "violation" if res["violations"] else ("inconclusive" if res["inconclusive"] else "discharged")
    return res


REPLAY_ASRX = '''
from chempy import Equilibrium
K, kf, kbv = %(vals)s
eq = Equilibrium(%(reac)r, %(prod)r, K)
f, b = eq.as_reactions(kf=kf)
f2, b2 = eq.as_reactions(kb=kbv)
bad = []
if f.param != kf or b.param != kf / K: bad.append("kf given: %%s %%s" %% (f.param, b.param))
if b2.param != kbv or f2.param != kbv * K: bad.append("kb given: %%s %%s" %% (f2.param, b2.param))
if f.reac != eq.reac or f.prod != eq.prod or b.reac != eq.prod or b.prod != eq.reac: bad.append("stoichiometry of the pair")
for x in bad: print("MISMATCH", x)
sys.exit(1 if bad else 0)
'''


def task_as_reactions():
    from chempy import Equilibrium

    K, kf, kb = Real("K"), Real("kf"), Real("kb")
    assum = [K.t > 0, kf.t > 0, kb.t > 0]
    cases = [({"A": 1}, {"B": 1}), ({"A": 2, "B": 1}, {"C": 1}), ({"A": 1}, {"B": 2, "C": 1})]
    ob = di = q = 0
    viol = []
    for reac, prod in cases:
        eq = Equilibrium(dict(reac), dict(prod), K)
        f, b = eq.as_reactions(kf=kf)
        f2, b2 = eq.as_reactions(kb=kb)
        ob += 1
        conds = [eq_term(f.param, kf), eq_term(b.param, kf / K), eq_term(b2.param, kb), eq_term(f2.param, kb * K),
                 z3.BoolVal(f.reac == eq.reac and f.prod == eq.prod and b.reac == eq.prod and b.prod == eq.reac)]
        s = z3.Solver()
        s.add(*assum)
        s.add(z3.Not(z3.And(*conds)))
        q += 1
        r = str(s.check())
        if r == "unsat":
            di += 1
        else:
            viol.append(dict(key="as_reactions", desc="as_reactions for %s = %s" % (reac, prod),
                             replay_src=REPLAY_ASRX % dict(vals="(Fraction(3), Fraction(5), Fraction(7))", reac=reac, prod=prod)))
    return dict(engine="Z", functions=[env.describe(Equilibrium.as_reactions)], obligations=ob, discharged=di, violations=viol, queries=q, twin="n/a",
                bounds="3 stoichiometries, all positive K, kf, kb (unitless: c0 = 1)", status="violation" if viol else "discharged",
                sample={"claim": "kb = kf/(K*c0^dnu), kf = kb*K*c0^dnu, forward/backward pair has mirrored stoichiometry"})


REPLAY_INTK = '''
from chempy import Equilibrium
n, K = %(vals)r
e = Equilibrium({"A": 1}, {"B": 2}, K)
r = n * e
exp = Fraction(K) ** n
print(n, K, r.param, exp)
ok = abs(Fraction(r.param) - exp) <= Fraction(1, 10**9) * abs(exp) and dict(r.reac) == ({"A": n} if n > 0 else {"B": -2 * n}) and dict(r.prod) == ({"B": 2 * n} if n > 0 else {"A": -n})
sys.exit(0 if ok else 1)
'''


def task_int_constant():
    """the constant may be a plain python int: (n*e).param == K**n for symbolic n (negative n reverses the reaction)"""
    from chempy import Equilibrium
    from fractions import Fraction
    import chempy.chemistry as cc

    cc.int = sym_int
    n = Int("n")
    assum = [n.t >= -3, n.t <= 3, n.t != 0]

    def fn():
        out = []
        for K in (8, 3):
            r = n * Equilibrium({"A": 1}, {"B": 2}, K)
            nv = fork_int(n, -3, 3)
            out.append((K, nv, r.param, dict(r.reac), dict(r.prod)))
        return out

    def goal(p, twin=False):
        if p.kind == "exc":
            return False
        conds = []
        for K, nv, param, reac, prod in p.value:
            exp = Fraction(K) ** nv if not twin else Fraction(K) ** (-nv)
            conds.append(eq_term(param, exp) if isinstance(param, SymNum) else z3.BoolVal(abs(Fraction(param) - exp) <= Fraction(1, 10 ** 9) * exp))
            if nv > 0:
                conds += [z3.BoolVal(set(reac) == {"A"} and set(prod) == {"B"}), eq_term(reac["A"], nv), eq_term(prod["B"], 2 * nv)]
            else:
                conds += [z3.BoolVal(set(reac) == {"B"} and set(prod) == {"A"}), eq_term(reac["B"], -2 * nv), eq_term(prod["A"], -nv)]
        return z3.And(*conds)

    o = explore_and_prove(fn, assum, goal, max_paths=200)
    ot = explore_and_prove(fn, assum, lambda q: goal(q, True), max_paths=200, max_fail=1)
    res = dict(engine="Z", functions=[env.describe(Equilibrium.__rmul__)], obligations=o.obligations, discharged=o.discharged, violations=[],
               inconclusive=list(o.inconclusive), queries=o.queries, paths=o.paths, solver_s=o.solver_s, twin=twin_verdict(ot),
               bounds="plain int constants 8 and 3, multiplier -3..3 symbolic", sample={"claim": "(n*e).param == K**n"})
    for p, mdl, g in o.failed[:1]:
        nv = model_value(mdl, n.t)
        res["violations"].append(dict(key="int-constant:%s" % p.kind, soft=wrapper_exc(p.value), desc="n=%s -> %r" % (nv, p.value),
                                      replay_src=REPLAY_INTK % dict(vals=(nv, 8))))
    res["status"] = "violation" if res["violations"] else ("inconclusive" if res["inconclusive"] else "discharged")
    return res


def tasks(tier, seed):
    import random

    rnd = random.Random(seed)
    names = list(SHAPES)
    pairs = [list(p) for p in itertools.product(names, repeat=2)]
    triples = [list(t) for t in itertools.product(names, repeat=3)]
    rnd.shuffle(triples)
    triples = triples[: (12 if tier == "quick" else 60)]
    ts = []
    n = 10
    for i in range(n):
        ts.append(dict(id="C11.n*e1+m*e2.%02d" % i, fn="task_arith", kwargs=dict(form="n*e1+m*e2", shape_sets=pairs[i::n]), timeout=2400))
    for i in range(4):
        ts.append(dict(id="C11.n*e1-e2.%02d" % i, fn="task_arith", kwargs=dict(form="n*e1-e2", shape_sets=pairs[i::4][: (6 if tier == "quick" else 99)]), timeout=2400))
    for i in range(4):
        ts.append(dict(id="C11.chain3.%02d" % i, fn="task_arith", kwargs=dict(form="(n*e1+e2)-m*e3", shape_sets=triples[i::4]), timeout=2400))
    ts.append(dict(id="C11.scale", fn="task_arith", kwargs=dict(form="e1*n", shape_sets=[[s] for s in names]), timeout=600))
    ts.append(dict(id="C11.neg", fn="task_arith", kwargs=dict(form="-e1", shape_sets=[[s] for s in names]), timeout=600))
    # operands whose stoichiometries are OrderedDicts in reversed key order / ArithmeticDicts (stored as given): sums without scaling, scaled
    # sums and the same object scaled twice; no operation may change an operand
    for kind in ("ordered", "adict"):
        ts.append(dict(id="C11.%s.e1+e2" % kind, fn="task_arith", kwargs=dict(form="e1+e2", shape_sets=pairs[::3], kind=kind), timeout=900))
        ts.append(dict(id="C11.%s.e1-e2" % kind, fn="task_arith", kwargs=dict(form="e1-e2", shape_sets=pairs[1::3], kind=kind), timeout=900))
        ts.append(dict(id="C11.%s.scale_twice" % kind, fn="task_arith", kwargs=dict(form="n*e1;m*e1", shape_sets=[[s_] for s_ in names], kind=kind), timeout=900))
        ts.append(dict(id="C11.%s.n*e1+m*e2" % kind, fn="task_arith", kwargs=dict(form="n*e1+m*e2", shape_sets=pairs[2::12], kind=kind), timeout=900))
    ts.append(dict(id="C11.scale_twice", fn="task_arith", kwargs=dict(form="n*e1;m*e1", shape_sets=[[s_] for s_ in names]), timeout=900))
    ts.append(dict(id="C11.reparam", fn="task_arith", kwargs=dict(form="-e1;reparam;e2-e1", shape_sets=pairs[:: (6 if tier == "quick" else 1)]), timeout=900))
    for s1_ in (-1, 1):
        for s2_ in (-1, 1):
            ts.append(dict(id="C11.eliminate_cancel.%s%s" % ("m" if s1_ < 0 else "p", "m" if s2_ < 0 else "p"), fn="task_eliminate",
                           kwargs=dict(maxc=40 if tier == "quick" else 64, signs=(s1_, s2_)), timeout=3000))
    ts.append(dict(id="C11.as_reactions", fn="task_as_reactions", kwargs={}, timeout=120))
    ts.append(dict(id="C11.int_constant", fn="task_int_constant", kwargs={}, timeout=300))
    return ts
