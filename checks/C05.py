"""C05 - only balanced reactions are admitted and their elements and charge are conserved.

(Z) ReactionSystem construction with symbolic composition entries and symbolic coefficients: acceptance <=> balance,
    the ValueError names a violated key, B*(N^T r) = 0 for arbitrary per-reaction rates r and for the real mass-action
    rates; mass/charge violation helpers.
(S) get_odesys on generated balanced systems: odesys.linear_invariants == B and every analytic elimination returned by
    extra['linear_dependencies'] follows from B*y = B*y0 (z3 LRA) and leaves no eliminated variable on a right-hand side.
"""
import itertools
import re
import time

import z3
from fractions import Fraction

from vlib import env, gen
from vlib.zrun import twin_verdict, explore_and_prove, all_eq, concretize, pyrepr, eq_term, wrapper_exc
from vlib.zsym import Int, Real, SymNum, sym_int, model_value, lift, term

META = {
    "level": "other",
    "explanation": "bounded symbolic verification: (Z) the real constructor/check_balance/composition_balance_vectors/rates code runs "
                   "on symbolic compositions and coefficients, z3 decides accept<=>balanced and the invariant identity on every path; "
                   "(S) the real get_odesys/linear_dependencies pipeline runs in sympy mode on generated systems and z3 (LRA) proves "
                   "each elimination from B*y=B*y0",
    "bounds": {
        "quick": "(Z) 3 substances x composition keys {0,1,8} with entries in [0,3] (charge [-2,2]), 1-2 reactions with coefficients in [0,2] "
                 "(all real-valued, a superset of the integer inputs; z3 NRA), 6 "
                 "reaction shapes x 3 key-presence patterns; (S) 16 generated systems, all preferred subsets of size <= 2; invariants also for H+ in 9 and 17 reactions and for a fractional composition",
        "thorough": "(Z) + 3-reaction shapes, coefficients 0..3; (S) 145 generated systems, preferred subsets of size <= 3",
    },
    "assumptions": [
        "stub: Reaction.string on the instances returns a constant (message formatting is not the subject); chempy.chemistry.int -> "
        "identity on integer symbols",
        "numerical integration keeping invariants to tolerance is delegated to LSODA/CVODE: not applicable",
        "(S) trusted: sympy Matrix.rref inside chempy's own code is part of the code under test; translator vlib/s2z.py",
    ],
    "outside": ["invariants under numerical integration (solver tolerance)"],
    "trusted_base": ["z3 5.1", "vlib/zsym.py", "vlib/s2z.py"],
}

CK = (0, 1, 8)

# reaction shapes over substances S0,S1,S2: list of (reac keys, prod keys, inact_reac keys, inact_prod keys)
SHAPES = {
    "a->b": [(("S0",), ("S1",), (), ())],
    "a->b+c": [(("S0",), ("S1", "S2"), (), ())],
    "a+b->c": [(("S0", "S1"), ("S2",), (), ())],
    "a+(c)->b": [(("S0",), ("S1",), ("S2",), ())],
    "a->b;b->a+c": [(("S0",), ("S1",), (), ()), (("S1",), ("S0", "S2"), (), ())],
    "a+b->c;c->a+b": [(("S0", "S1"), ("S2",), (), ()), (("S2",), ("S0", "S1"), (), ())],
    "a->b;b->c;c->a": [(("S0",), ("S1",), (), ()), (("S1",), ("S2",), (), ()), (("S2",), ("S0",), (), ())],
}
# which composition keys each substance's dict contains
PRESENCE = {
    "full": [CK, CK, CK],
    "neutral-first": [(1, 8), CK, CK],
    "sparse": [(1,), (0, 8), (0, 1, 8)],
}

REPLAY = '''
from chempy import Reaction, ReactionSystem, Substance
comps = %(comps)s
rxs = %(rxs)s
expect_accept = %(accept)r
named = %(named)r
subs = [Substance("S%%d" %% i, composition=dict(c)) for i, c in enumerate(comps)]
rxns = [Reaction(r[0], r[1], 1, inact_reac=r[2], inact_prod=r[3], checks=()) for r in rxs]
keys = sorted(set().union(*[set(c) for c in comps]))
viol = {}
for ri, r in enumerate(rxs):
    for k in keys:
        net = 0
        for i, c in enumerate(comps):
            s = "S%%d" %% i
            net += c.get(k, 0) * (r[1].get(s, 0) - r[0].get(s, 0) + r[3].get(s, 0) - r[2].get(s, 0))
        if net != 0:
            viol[(ri, k)] = net
balanced = not viol
ReactionSystem(rxns, subs, dont_check={"balance"})   # an earlier construction that opted out must not influence the next one
try:
    rsys = ReactionSystem(rxns, subs)
    accepted, msg = True, None
except ValueError as e:
    accepted, msg = False, str(e)
print("balanced=%%s accepted=%%s msg=%%r violations=%%s" %% (balanced, accepted, msg, viol))
bad = accepted != balanced
if not accepted and not bad:
    import re
    m = re.search(r"Composition violation \\((-?\\d+):", msg or "")
    if not m or not any(k == int(m.group(1)) for (_, k) in viol):
        bad = True
if accepted and balanced:
    B, ck = rsys.composition_balance_vectors()
    if list(ck) != keys or [list(row) for row in B] != [[c.get(k, 0) for c in comps] for k in keys]:
        print("composition_balance_vectors mismatch", B, ck); bad = True
    try:
        rsys.upper_conc_bounds([1, 2, 3], dtype=object)
    except (ZeroDivisionError, ValueError):
        pass
    B3, ck3 = rsys.composition_balance_vectors()
    if list(ck3) != keys or [list(row) for row in B3] != [[c.get(k, 0) for c in comps] for k in keys]:
        print("composition_balance_vectors differs after a bounds query", B3, ck3); bad = True
    rs2 = ReactionSystem(rxns, [subs[2], subs[0], subs[1]])
    rs2.composition_balance_vectors()
    rs2.sort_substances_inplace()
    B2, ck2 = rs2.composition_balance_vectors()
    if [list(row) for row in B2] != [[comps[int(n[1:])].get(k, 0) for n in rs2.substances] for k in keys]:
        print("composition_balance_vectors stale after sort_substances_inplace", B2, list(rs2.substances)); bad = True
    conc = {"S%%d" %% i: Fraction(3 + 2*i, 7) for i in range(len(comps))}
    rates = rsys.rates(conc)
    for row, k in zip(B, ck):
        tot = sum(b * rates.get("S%%d" %% i, 0) for i, b in enumerate(row))
        if tot != 0:
            print("B*rates != 0 for key", k, tot); bad = True
sys.exit(1 if bad else 0)
'''


def ob_admission(shape, presence, lo, hi, twin=False):
    from chempy import Reaction, ReactionSystem, Substance
    import chempy.chemistry as cc

    cc.int = sym_int
    assum = []
    comps = []
    for si, keys in enumerate(PRESENCE[presence]):
        d = {}
        for k in keys:
            v = Real("comp_S%d_%d" % (si, k))
            assum += ([v.t >= -2, v.t <= 2] if k == 0 else [v.t >= 0, v.t <= 3])
            d[k] = v
        comps.append(d)
    rxs = []
    for ri, sh in enumerate(SHAPES[shape]):
        r = []
        for nm, keys in zip(("r", "p", "ir", "ip"), sh):
            d = {}
            for s in keys:
                v = Real("x%d_%s_%s" % (ri, nm, s))
                assum += [v.t >= lo, v.t <= hi]
                d[s] = v
            r.append(d)
        rxs.append(tuple(r))
    ks = [Real("k%d" % i) for i in range(len(rxs))]
    conc = {"S%d" % i: Real("c_S%d" % i) for i in range(3)}
    rr = [Real("r%d" % i) for i in range(len(rxs))]
    allkeys = sorted(set().union(*[set(c) for c in comps]))

    def net(ri, s):
        r = rxs[ri]
        return r[1].get(s, 0) - r[0].get(s, 0) + r[3].get(s, 0) - r[2].get(s, 0)

    def viol(ri, k):
        return sum(comps[i].get(k, 0) * net(ri, "S%d" % i) for i in range(3))

    def fn():
        subs = [Substance("S%d" % i, composition=dict(c)) for i, c in enumerate(comps)]
        rxns = []
        for r, k in zip(rxs, ks):
            rx = Reaction(dict(r[0]), dict(r[1]), k, inact_reac=dict(r[2]), inact_prod=dict(r[3]), checks=())
            rx.string = lambda *a, **kw: "<rxn>"
            rxns.append(rx)
        ReactionSystem(rxns, subs, dont_check={"balance"})  # history: an earlier construction that opted out of the balance check
        rsys = ReactionSystem(rxns, subs)
        B, ck = rsys.composition_balance_vectors()
        N = rsys.net_stoichs()
        rates = None
        mv = [rx.charge_neutrality_violation(rsys.substances) for rx in rxns]
        # history: explicit unsorted order -> query -> sort in place -> query again (must follow the new order)
        rs2 = ReactionSystem(rxns, [subs[2], subs[0], subs[1]])
        B2a, _ = rs2.composition_balance_vectors()
        rs2.sort_substances_inplace()
        B2b, ck2 = rs2.composition_balance_vectors()
        order2 = list(rs2.substances)
        # history: a bounds query in between must not change what the system reports about its substances
        try:
            rsys.upper_conc_bounds([1, 2, 3], dtype=object, min_=lambda xs: xs[0])
        except (ZeroDivisionError, ValueError, IndexError):
            pass
        B3, ck3 = rsys.composition_balance_vectors()
        hist = (B2a, B2b, ck2, order2, rs2.net_stoichs(), B3, ck3)
        return rsys, B, ck, N, rates, mv, hist

    def goal(p):
        if p.kind == "exc":
            e = p.value
            if not isinstance(e, ValueError):
                return False
            m = re.search(r"Composition violation \((-?\d+):", str(e))
            if not m:
                if "Duplicate reactions" in str(e):
                    return None  # duplicate refusal: a different check of the constructor, not part of this claim
                return False
            k = int(m.group(1))
            if k not in allkeys:
                return False
            return z3.Or(*[z3.Not(eq_term(viol(ri, k), 0)) for ri in range(len(rxs))])
        rsys, B, ck, N, rates, mv, hist = p.value
        if twin:
            return z3.BoolVal(False)
        pairs = []
        for ri in range(len(rxs)):
            for k in allkeys:
                pairs.append((viol(ri, k), 0))
        if list(ck) != allkeys:
            return False
        for row, k in zip(B, ck):
            for i, b in enumerate(row):
                pairs.append((b, comps[i].get(k, 0)))
            # B*(N^T r) = 0 for arbitrary per-reaction rates r  <=>  for every reaction j: sum_i B[k][i]*N[j][i] = 0
            # (coefficient of each free r_j); stated per reaction so that the query stays in integer arithmetic
            for ri in range(len(rxs)):
                pairs.append((sum(b * N[ri, i] for i, b in enumerate(row)), 0))
        for ri in range(len(rxs)):
            pairs.append((mv[ri], viol(ri, 0) if 0 in allkeys else 0))
        B2a, B2b, ck2, order2, N2, B3, ck3 = hist
        if order2 != ["S0", "S1", "S2"] or list(ck2) != allkeys or list(ck3) != allkeys:
            return False
        for row, k in zip(B3, ck3):
            for i, b in enumerate(row):
                pairs.append((b, comps[i].get(k, 0)))
        for row_a, row_b, k in zip(B2a, B2b, ck2):
            for j, i in enumerate((2, 0, 1)):
                pairs.append((row_a[j], comps[i].get(k, 0)))
            for i in range(3):
                pairs.append((row_b[i], comps[i].get(k, 0)))
            for ri in range(len(rxs)):
                pairs.append((sum(row_b[i] * N2[ri, i] for i in range(3)), 0))
        return all_eq(pairs)

    o = explore_and_prove(fn, assum, goal, max_paths=4000, deadline_s=200)
    return o, comps, rxs


def task_admission(shapes, presence, lo, hi):
    from chempy import ReactionSystem, Reaction

    res = dict(engine="Z", functions=[env.describe(ReactionSystem.check_balance), env.describe(Reaction.composition_violation),
                                      env.describe(ReactionSystem.composition_balance_vectors), env.describe(ReactionSystem.__init__),
                                      env.describe(Reaction._violation)],
               obligations=0, discharged=0, violations=[], inconclusive=[], queries=0, paths=0, solver_s=0.0,
               bounds="shapes %s, presence %s, coefficients %d..%d, composition entries in [0,3], charge in [-2,2] (real-valued: superset of the integers)" % (shapes, presence, lo, hi))
    tw = None
    for shape in shapes:
        o, comps, rxs = ob_admission(shape, presence, lo, hi)
        res["obligations"] += o.obligations
        res["discharged"] += o.discharged
        res["queries"] += o.queries
        res["paths"] += o.paths
        res["solver_s"] += o.solver_s
        res["inconclusive"] += o.inconclusive
        for p, m, g in o.failed[:2]:
            cc = [concretize(m, d) for d in comps]
            cr = [tuple(concretize(m, d) for d in r) for r in rxs]
            accepted = p.kind == "ok"
            soft = p.kind == "exc" and wrapper_exc(p.value)
            if soft:
                # the path ended where the number wrapper cannot follow (e.g. an int() coercion): look for a concrete witness among BALANCED
                # structures with non-integer coefficients and compositions (these are what such coercions damage); verdict by the replay only
                sw = z3.Solver()
                sw.set("timeout", 20000)
                allk = sorted(set().union(*[set(c) for c in comps]))
                for ri, r in enumerate(rxs):
                    for k in allk:
                        sw.add(z3.Sum([z3.RealVal(0)] + [lift(comps[i].get(k, 0)) * lift(r[1].get("S%d" % i, 0) - r[0].get("S%d" % i, 0) + r[3].get("S%d" % i, 0) - r[2].get("S%d" % i, 0))
                                                         for i in range(len(comps))]) == 0)
                    for d in r:
                        for v in d.values():
                            sw.add(z3.Or(v.t == z3.Q(1, 2), v.t == z3.Q(3, 2)))
                for c in comps:
                    for k, v in c.items():
                        if k != 0:
                            sw.add(v.t >= z3.Q(1, 2), z3.ToReal(z3.ToInt(v.t * 2)) == v.t * 2)
                if str(sw.check()) == "sat":
                    mw = sw.model()
                    cc = [concretize(mw, d) for d in comps]
                    cr = [tuple(concretize(mw, d) for d in r) for r in rxs]
            res["violations"].append(dict(soft=soft,
                key="admission:%s" % ("accepted-unbalanced-or-wrong-invariant" if accepted else "refused-or-misnamed"),
                desc="shape %s compositions=%s reactions=%s -> %s" % (shape, cc, cr, "accepted" if accepted else repr(p.value)),
                replay_src=REPLAY % dict(comps=pyrepr(cc), rxs=pyrepr(cr), accept=accepted, named=None)))
        if tw is None:
            ot, _, _ = ob_admission(shape, presence, lo, hi, twin=True)
            tw = twin_verdict(ot)
    res["twin"] = tw
    res["sample"] = {"shape": shapes[0], "presence": presence, "compositions": "symbolic ints", "coefficients": "symbolic %d..%d" % (lo, hi)}
    res["status"] = "violation" if res["violations"] else ("inconclusive" if res["inconclusive"] else "discharged")
    return res


REPLAY_LD = '''
import sympy
from chempy import ReactionSystem, Substance
from chempy.kinetics.ode import get_odesys
rxn_strs = %(rxns)r
preferred = %(preferred)r
rsys = ReactionSystem.from_string("\\n".join(s + "; 1" for s in rxn_strs), substance_factory=Substance.from_formula)
odesys, extra = get_odesys(rsys)
B, ck = rsys.composition_balance_vectors()
bad = False
if odesys.linear_invariants is None or [list(map(int, r)) for r in odesys.linear_invariants.tolist()] != [list(r) for r in B]:
    print("linear_invariants differ from composition vectors"); bad = True
y0 = {d: sympy.Symbol("y0_%%d" %% i) for i, d in enumerate(odesys.dep)}
try:
    sol = extra["linear_dependencies"](preferred)(None, y0, None, sympy)
except ValueError as e:
    print("refused:", e); sys.exit(0)
# substitute the eliminations into B*y - B*y0: every row that can be affected must stay consistent:
# check by solving: choose random rational y satisfying B y = B y0 and compare
import random
rnd = random.Random(1)
ns = len(odesys.dep)
Bm = sympy.Matrix(B)
null = Bm.nullspace()
y0v = [sympy.Rational(rnd.randint(1, 9), rnd.randint(1, 5)) for _ in range(ns)]
yv = sympy.Matrix(y0v) + sum((sympy.Rational(rnd.randint(-5, 5), 3) * v for v in null), sympy.zeros(ns, 1))
subs = {d: yv[i] for i, d in enumerate(odesys.dep)}
subs.update({y0[d]: y0v[i] for i, d in enumerate(odesys.dep)})
for k, e in sol.items():
    if any(kk in e.free_symbols for kk in sol):
        print("eliminated variable on a right-hand side:", k, e); bad = True
    if sympy.simplify(e.subs(subs) - subs[k]) != 0:
        print("elimination %%s = %%s is not implied by the invariants" %% (k, e)); bad = True
sys.exit(1 if bad else 0)
'''


def task_lindep(systems, maxpref):
    import sympy
    from chempy import ReactionSystem, Substance
    from chempy.kinetics.ode import get_odesys
    from vlib.s2z import Conv

    res = dict(engine="S", functions=[env.describe(get_odesys), env.describe(ReactionSystem.composition_balance_vectors)],
               obligations=0, discharged=0, violations=[], inconclusive=[], queries=0, solver_s=0.0,
               bounds="%d systems, preferred subsets up to size %d" % (len(systems), maxpref))
    twin_seen = False
    for rxn_strs in systems:
        try:
            rsys = ReactionSystem.from_string("\n".join(s + "; 1" for s in rxn_strs), substance_factory=Substance.from_formula)
            odesys, extra = get_odesys(rsys)
        except Exception as e:
            res["inconclusive"].append("build failed for %s: %r" % (rxn_strs, e))
            continue
        B, ck = rsys.composition_balance_vectors()
        names = list(rsys.substances)
        res["obligations"] += 1
        li = odesys.linear_invariants
        if li is not None and [list(map(int, r)) for r in li.tolist()] == [list(r) for r in B]:
            res["discharged"] += 1
        else:
            res["violations"].append(dict(key="lindep:linear_invariants", desc="linear_invariants != composition vectors for %s" % rxn_strs,
                                          replay_src=REPLAY_LD % dict(rxns=rxn_strs, preferred=None)))
            continue
        y0 = {d: sympy.Symbol("y0_%d" % i) for i, d in enumerate(odesys.dep)}
        prefs = [None] + [list(c) for k in range(1, maxpref + 1) for c in itertools.combinations(names, k) if k < len(names)]
        for pref in prefs:
            try:
                sol = extra["linear_dependencies"](pref)(None, y0, None, sympy)
            except ValueError:
                continue  # refusal is an accepted outcome
            conv = Conv()
            yz = [conv(d) for d in odesys.dep]
            y0z = [conv(y0[d]) for d in odesys.dep]
            hyp = [z3.Sum([z3.Q(Fraction(str(b)).numerator, Fraction(str(b)).denominator) * (yz[i] - y0z[i]) for i, b in enumerate(row)]) == 0 for row in B]
            for kdep, expr in sol.items():
                res["obligations"] += 1
                t0 = time.time()
                bad_rhs = [str(kk) for kk in sol if kk in expr.free_symbols]
                s = z3.Solver()
                s.set("timeout", 20000)
                s.add(*hyp)
                s.add(conv(kdep) != conv(expr))
                r = str(s.check())
                res["queries"] += 1
                res["solver_s"] += time.time() - t0
                if not twin_seen:
                    s2 = z3.Solver()
                    s2.add(*hyp)
                    s2.add(conv(kdep) != conv(expr) + 1)
                    twin_seen = str(s2.check()) == "sat"
                if r == "unsat" and not bad_rhs:
                    res["discharged"] += 1
                elif r == "unknown":
                    res["inconclusive"].append("unknown for %s pref=%s" % (rxn_strs, pref))
                else:
                    if r == "unsat":
                        vkey = "lindep:circular-elimination:%s" % ("multi-preferred" if pref is not None and len(pref) >= 2 else "single-or-default")
                    else:
                        vkey = "lindep:not-implied-by-invariants"
                    res["violations"].append(dict(
                        key=vkey, desc="system %s preferred=%s: %s = %s not implied by B*y=B*y0%s" % (
                            rxn_strs, pref, kdep, expr, (" / eliminated %s on rhs" % bad_rhs) if bad_rhs else ""),
                        replay_src=REPLAY_LD % dict(rxns=rxn_strs, preferred=pref)))
    res["twin"] = "violated" if twin_seen else "passed"
    res["sample"] = {"system": systems[0], "preferred": "None and every subset up to size %d" % maxpref}
    res["status"] = "violation" if res["violations"] else ("inconclusive" if res["inconclusive"] else "discharged")
    return res


REPLAY_INV = '''
import numpy as np
from fractions import Fraction
from chempy import ReactionSystem, Substance
rxn_strs = %(rxns)r
rsys = ReactionSystem.from_string("\\n".join(s + "; %%d" %% (3 + 2 * i) for i, s in enumerate(rxn_strs)), substance_factory=Substance.from_formula)
names = list(rsys.substances)
B, ck = rsys.composition_balance_vectors()
conc = {n: Fraction(2 + 3 * i, 7) for i, n in enumerate(names)}
bad = []
for label, variables, pick in (("scalars", dict(conc), lambda v: v),
                               ("arrays", {n: np.array([v, 2 * v + 1], dtype=object) for n, v in conc.items()}, lambda v: v[0] if hasattr(v, "__len__") else v)):
    for rep in (1, 2):
        rates = rsys.rates(variables)
        for row, k in zip(B, ck):
            tot = sum(Fraction(str(b)) * pick(rates.get(n, 0)) for n, b in zip(names, row))   # exact, also for fractional compositions
            if tot != 0: bad.append("%%s, evaluation %%d: composition key %%s is not conserved by the rates (sum = %%s)" %% (label, rep, k, tot))
for b in bad[:6]: print("MISMATCH", b)
sys.exit(1 if bad else 0)
'''


def task_invariants(systems):
    """Engine S: the REAL ReactionSystem.rates output (symbolic concentrations and rate constants; scalars and array-valued, evaluated twice)
    is annihilated by every composition vector: sum_i B[k][i] * rate_i == 0 as a polynomial identity (z3)"""
    import numpy as np
    import sympy
    from chempy import ReactionSystem, Substance
    from vlib.s2z import Conv

    res = dict(engine="S", functions=[env.describe(ReactionSystem.rates), env.describe(ReactionSystem.composition_balance_vectors)],
               obligations=0, discharged=0, violations=[], inconclusive=[], queries=0, solver_s=0.0,
               bounds="%d systems; concentrations and rate constants free reals; scalar and array-valued (mutable) concentrations" % len(systems))
    twin_seen = False
    for rxn_strs in systems:
        try:
            rsys = ReactionSystem.from_string("\n".join(s + "; 'k%d'" % i for i, s in enumerate(rxn_strs)), substance_factory=Substance.from_formula)
        except Exception as e:
            res["inconclusive"].append("build failed for %s: %r" % (rxn_strs, e))
            continue
        names = list(rsys.substances)
        B, ck = rsys.composition_balance_vectors()
        cs = {n: sympy.Symbol("c%d" % i, positive=True) for i, n in enumerate(names)}
        ks = {"k%d" % i: sympy.Symbol("k%d" % i, positive=True) for i in range(len(rxn_strs))}
        forms = []
        try:
            v = dict(cs)
            v.update(ks)
            forms.append(("scalars", rsys.rates(v), lambda x: x))
            va = {n: np.array([c, 2 * c + 1], dtype=object) for n, c in cs.items()}
            va.update(ks)
            forms.append(("arrays", rsys.rates(va), lambda x: x[0] if hasattr(x, "__len__") else x))
            forms.append(("arrays, 2nd evaluation", rsys.rates(va), lambda x: x[0] if hasattr(x, "__len__") else x))
        except Exception as e:
            res["obligations"] += 1
            res["violations"].append(dict(key="invariants:exc", desc="%s: rates raised %r" % (rxn_strs, e), replay_src=REPLAY_INV % dict(rxns=rxn_strs)))
            continue
        for label, rates, pick in forms:
            for row, k in zip(B, ck):
                res["obligations"] += 1
                t0 = time.time()
                conv = Conv()
                tot = sum(sympy.Rational(str(b)) * pick(rates.get(n, 0)) for n, b in zip(names, row))   # exact, also for fractional compositions
                try:
                    tz = conv(sympy.sympify(tot))
                except NotImplementedError as e:
                    res["inconclusive"].append("translation: %s" % e)
                    continue
                sv = z3.Solver()
                sv.set("timeout", 30000)
                sv.add(tz != 0)
                r = str(sv.check())
                res["queries"] += 1
                res["solver_s"] += time.time() - t0
                if not twin_seen and any(row):
                    s2 = z3.Solver()
                    s2.add(tz + conv(cs[names[0]]) != 0)
                    twin_seen = str(s2.check()) == "sat"
                if r == "unsat":
                    res["discharged"] += 1
                elif r == "sat":
                    if not any(vv["key"] == "invariants:" + label.split(",")[0] for vv in res["violations"]):
                        res["violations"].append(dict(key="invariants:" + label.split(",")[0],
                                                      desc="%s (%s): composition key %s: sum B*rates = %s is not identically zero" % (rxn_strs, label, k, sympy.simplify(tot)),
                                                      replay_src=REPLAY_INV % dict(rxns=rxn_strs)))
                else:
                    res["inconclusive"].append("unknown for %s key %s" % (rxn_strs, k))
    res["twin"] = "violated" if twin_seen else "passed"
    res["sample"] = {"system": systems[0], "rates": "ReactionSystem.rates on sympy symbols (scalars / object arrays)"}
    res["status"] = "violation" if res["violations"] else ("inconclusive" if res["inconclusive"] else "discharged")
    return res


REPLAY_CHG = '''
from chempy import Substance, Reaction, ReactionSystem
qa, qe, qb = %(q)s
A = Substance("A", charge=qa, composition={26: 1})
E = Substance("E", charge=qe, composition={})          # a species without elements: only its charge (the electron)
B = Substance("B", charge=qb, composition={26: 1})
bad = []
for s_, q_ in ((A, qa), (E, qe), (B, qb)):
    if s_.charge != q_ or (s_.composition or {}).get(0, 0) != q_: bad.append("%%s: charge %%r / composition %%r, given charge=%%r" %% (s_.name, s_.charge, s_.composition, q_))
try:
    ReactionSystem([Reaction({"A": 1, "E": 1}, {"B": 1})], [A, E, B]); accepted = True
except ValueError as e:
    accepted = False
if accepted != (qa + qe == qb): bad.append("A + E -> B with charges %%s accepted=%%s" %% ((qa, qe, qb), accepted))
for b in bad: print("MISMATCH", b)
sys.exit(1 if bad else 0)
'''


def task_charge_kw():
    """the charge may be given by keyword instead of composition[0] - also for a species with NO elements (the electron): the substance
    carries that charge and the admission test balances it (symbolic integer charges)"""
    from chempy import Substance, Reaction, ReactionSystem
    from vlib.zsym import Int

    qa, qe, qb = Int("qa"), Int("qe"), Int("qb")
    assum = [v.t >= -3 for v in (qa, qe, qb)] + [v.t <= 3 for v in (qa, qe, qb)]

    def fn():
        A = Substance("A", charge=qa, composition={26: 1})
        E = Substance("E", charge=qe, composition={})
        B = Substance("B", charge=qb, composition={26: 1})
        rx = Reaction({"A": 1, "E": 1}, {"B": 1}, checks=())
        rx.string = lambda *a, **k: "<rxn>"
        carried = [(s_.charge, (s_.composition or {}).get(0, 0), q_) for s_, q_ in ((A, qa), (E, qe), (B, qb))]
        try:
            ReactionSystem([rx], [A, E, B])
            acc = True
        except ValueError as e:
            if "Composition violation" not in str(e):
                raise
            acc = False
        return carried, acc

    def goal(p, twin=False):
        if p.kind == "exc":
            return False
        carried, acc = p.value
        conds = []
        for ch, c0, q_ in carried:
            conds += [eq_term(ch, q_), eq_term(c0, q_)]
        bal = (qa + qe - qb).t == 0
        if twin:
            bal = (qa + qe + qb).t == 0
        conds.append(bal if acc else z3.Not(bal))
        return z3.And(*conds)

    o = explore_and_prove(fn, assum, goal, max_paths=200, deadline_s=60)
    ot = explore_and_prove(fn, assum, lambda p: goal(p, True), max_paths=200, deadline_s=30, max_fail=1)
    res = dict(engine="Z", functions=[env.describe(Substance.__init__), env.describe(ReactionSystem.check_balance)], obligations=o.obligations,
               discharged=o.discharged, violations=[], inconclusive=list(o.inconclusive), queries=o.queries, paths=o.paths, solver_s=o.solver_s,
               twin=twin_verdict(ot), bounds="charges -3..3 (symbolic integers) given by keyword; one species without elements",
               sample={"reaction": "A + E -> B", "charges": "symbolic, by keyword"})
    for p, m, g in o.failed[:1]:
        qv = tuple(model_value(m, v.t) for v in (qa, qe, qb)) if m is not None else (3, -1, 2)
        res["violations"].append(dict(key="charge_kw:%s" % p.kind, soft=wrapper_exc(p.value) if p.kind == "exc" else False,
                                      desc="charges %s by keyword -> %r" % (qv, p.value), replay_src=REPLAY_CHG % dict(q=repr(qv))))
    res["status"] = "violation" if res["violations"] else ("inconclusive" if res["inconclusive"] else "discharged")
    return res


def tasks(tier, seed):
    ts = []
    lo, hi = (0, 2) if tier == "quick" else (0, 3)
    shapes = list(SHAPES)
    if tier == "quick":
        shapes = shapes[:6]
    for pres in PRESENCE:
        for sh in shapes:
            ts.append(dict(id="C05.admission.%s.%s" % (pres, sh), fn="task_admission",
                           kwargs=dict(shapes=[sh], presence=pres, lo=lo, hi=hi), timeout=900))
    systems = gen.kin_systems(tier, seed)
    n = 4 if tier == "quick" else 16
    for i in range(n):
        ch = systems[i::n]
        if ch:
            ts.append(dict(id="C05.lindep.%02d" % i, fn="task_lindep", kwargs=dict(systems=ch, maxpref=2 if tier == "quick" else 3), timeout=1800))
    ts.append(dict(id="C05.charge_keyword", fn="task_charge_kw", kwargs={}, timeout=300))
    for i in range(2 if tier == "quick" else 8):
        ch = systems[i:: (2 if tier == "quick" else 8)]
        if ch:
            ts.append(dict(id="C05.invariants.%02d" % i, fn="task_invariants", kwargs=dict(systems=ch), timeout=1800))
    # LARGE: a hub species (H+) that takes part in 9 and in 17 reactions; a fractional composition
    ts.append(dict(id="C05.invariants.large", fn="task_invariants", kwargs=dict(systems=[
        ["H+ + Cl- -> HCl", "H+ + Br- -> HBr", "H+ + F- -> HF", "H+ + I- -> HI", "H+ + OH- -> H2O", "H+ + NH3 -> NH4+", "H+ + HS- -> H2S",
         "H+ + CN- -> HCN", "H+ + NO2- -> HNO2"],
        ["H+ + Cl- -> HCl", "H+ + Br- -> HBr", "H+ + F- -> HF", "H+ + I- -> HI", "H+ + OH- -> H2O", "H+ + NH3 -> NH4+", "H+ + HS- -> H2S",
         "H+ + CN- -> HCN", "H+ + NO2- -> HNO2", "H+ + NO3- -> HNO3", "H+ + HCO3- -> H2CO3", "H+ + CO3-2 -> HCO3-", "H+ + HSO4- -> H2SO4",
         "H+ + SO4-2 -> HSO4-", "H+ + H2PO4- -> H3PO4", "H+ + HPO4-2 -> H2PO4-", "H+ + PO4-3 -> HPO4-2"],
        ["2 CaSO4(H2O)0.5 -> 2 CaSO4 + H2O", "H2O -> H+ + OH-"]]), timeout=1800))
    return ts
