"""C17 - closed-form integrated rate laws solve their rate equations from the given start.

Engine Z + forward-mode AD: the real functions of chempy.kinetics.integrated are executed with
t = Dual(t, 1) (value and d/dt as z3 terms), backend = ZBackend (exp/sqrt/tanh/atanh uninterpreted),
all parameters free positive reals.  The obligation  d/dt f == rhs(f)  and  f(t=0) == stated initial value
is discharged by z3 (NRA) after UF normalisation (vlib/ufnorm.py).
"""
import random
import time

import z3

from vlib import env
from vlib.dual import Dual
from vlib.ufnorm import UFNorm
from vlib.zeval import zeval, close
from vlib.zsym import Real, SymNum, ZBackend, model_value, term

META = {
    "level": "other",
    "explanation": "bounded symbolic verification of the real closed-form functions: executed on z3-backed dual numbers "
                   "(value, d/dt), identities decided by z3 NRA for all positive parameters and all t >= 0; no bound on "
                   "values other than the stated domain assumptions",
    "bounds": {"quick": "7 functions, 11 components, all reals in the stated domain (no numeric bound)",
               "thorough": "same + t0 symbolic for dimerization, n in 1..3 for binary_irrev_cstr, cvc5 cross-check"},
    "assumptions": [
        "identities are over the reals (float rounding outside the claim)",
        "domain: all rate constants/concentrations/feed rates > 0, t >= 0; binary_irrev: major > minor; "
        "binary_rev: discriminant > 0 is proved as its own obligation; binary_irrev_cstr: |atanh argument| < 1 "
        "(2*k*r^2 + fv*r < fv*fr), otherwise the closed form is complex-valued",
        "trusted: chain rules of vlib/dual.py; ground facts about exp/sqrt/tanh/atanh listed in vlib/ufnorm.py",
    ],
    "outside": ["'callable with each advertised backend' other than the default one (a concrete call without symbolic content); the default "
                "backend (None -> numpy) IS exercised symbolically through numpy's object-dtype loops",
                "floating-point evaluation error"],
    "trusted_base": ["z3 5.1 NRA", "vlib/dual.py chain rules", "vlib/ufnorm.py ground facts"],
}

# initial / feed concentrations of the PRODUCT may be exactly zero (the common case; the statement adds "including non-zero initial product")
MAY_BE_ZERO = ("prod", "p", "fp")

# name -> spec.  rhs/init are python source evaluated with parameter names and y0,y1 (the components).
CASES = {
    "dimerization_irrev": dict(
        params=["kf", "initial_C"], call="f(t, kf, initial_C)", n=1,
        rhs=["-2*kf*y0**2"], init=["initial_C"], extra=[]),
    "dimerization_irrev_t0": dict(
        fn="dimerization_irrev", params=["kf", "initial_C", "t0"], call="f(t + t0, kf, initial_C, 1, t0)", n=1,
        rhs=["-2*kf*y0**2"], init=["initial_C"], extra=[]),
    "pseudo_irrev": dict(
        params=["kf", "prod", "major", "minor"], call="f(t, kf, prod, major, minor, backend=be)", n=1,
        rhs=["kf*major*(minor - (y0 - prod))"], init=["prod"], extra=[]),
    "pseudo_rev": dict(
        params=["kf", "kb", "prod", "major", "minor"], call="f(t, kf, kb, prod, major, minor, backend=be)", n=1,
        rhs=["kf*major*(minor - (y0 - prod)) - kb*y0"], init=["prod"], extra=[]),
    "binary_irrev": dict(
        params=["kf", "prod", "major", "minor"], call="f(t, kf, prod, major, minor, backend=be)", n=1,
        rhs=["kf*(major - (y0 - prod))*(minor - (y0 - prod))"], init=["prod"], extra=["major > minor"]),
    "binary_rev": dict(
        params=["kf", "kb", "prod", "major", "minor"], call="f(t, kf, kb, prod, major, minor, backend=be)", n=1,
        rhs=["kf*(major - (y0 - prod))*(minor - (y0 - prod)) - kb*y0"], init=["prod"], extra=[]),
    "unary_irrev_cstr": dict(
        params=["k", "r", "p", "fr", "fp", "fv"], call="f(t, k, r, p, fr, fp, fv, backend=be)", n=2,
        rhs=["fv*(fr - y0) - k*y0", "fv*(fp - y1) + k*y0"], init=["r", "p"], extra=[]),
    "binary_irrev_cstr": dict(
        params=["k", "r", "p", "fr", "fp", "fv"], call="f(t, k, r, p, fr, fp, fv, n, backend=be)", n=2,
        rhs=["fv*fr - fv*y0 - 2*k*y0**2", "fv*fp + n*k*y0**2 - fv*y1"], init=["r", "p"],
        extra=["2*k*r*r + fv*r < fv*fr"], ns=[1, 2, 3]),
}


def _run(name, nval=1, at_zero=False):
    """execute the real function; returns (params dict of SymNum, components as Dual list, assumptions, backend)"""
    from chempy.kinetics import integrated

    spec = CASES[name]
    f = getattr(integrated, spec.get("fn", name))
    P = {p: Real(p) for p in spec["params"]}
    tsym = Real("t")
    be = ZBackend()
    scope = dict(P)
    scope.update(f=f, be=be, n=nval, t=(Dual(0, 1) if at_zero else Dual(tsym, 1)))
    res = eval(spec["call"], {}, scope)
    comps = list(res) if isinstance(res, tuple) else [res]
    assert len(comps) == spec["n"]
    assum = [(P[p].t >= 0) if p in MAY_BE_ZERO else (P[p].t > 0) for p in spec["params"]] + [tsym.t >= 0]
    for e in spec["extra"]:
        assum.append(eval(e, {}, dict(P)).t)
    return f, P, tsym, comps, assum


def _sides(name, kind, nval, twin=False):
    spec = CASES[name]
    f, P, tsym, comps, assum = _run(name, nval, at_zero=(kind == "init"))
    scope = dict(P)
    scope["n"] = nval
    for i, c in enumerate(comps):
        scope["y%d" % i] = c.v if isinstance(c, Dual) else c
    pairs = []
    for i, c in enumerate(comps):
        if kind == "ode":
            lhs = c.d if isinstance(c, Dual) else 0
            rhs = eval(spec["rhs"][i], {}, scope)
            if twin:
                rhs = rhs * 2 + 1
        else:
            lhs = c.v if isinstance(c, Dual) else c
            rhs = eval(spec["init"][i], {}, scope)
            if twin:
                rhs = rhs + 1
        pairs.append((term(lhs), term(rhs)))
    return f, P, tsym, pairs, assum


def _witness(pairs, assum, P, tsym, model, norm, seed):
    """find a concrete point where the two sides really differ (numeric evaluation of the encoding)"""
    names = list(P) + ["t"]
    cands = []
    if model is not None:
        try:
            pt = {}
            for nme in names:
                pt[nme] = model_value(model, z3.Real(nme))
            cands.append(pt)
        except Exception:
            pass
    rnd = random.Random(seed)
    for _ in range(40):
        cands.append({nme: rnd.choice([1, 2, 3, 5, 7]) * rnd.choice([1, 1, 1, 10]) / rnd.choice([1, 2, 4, 8, 16])
                      for nme in names})
    from fractions import Fraction

    for pt in cands:
        pt = {k: (Fraction(v).limit_denominator(10 ** 6) if not isinstance(v, int) else v) for k, v in pt.items()}
        try:
            if not all(zeval(a, pt) for a in assum):
                continue
            for i, (l, r) in enumerate(pairs):
                lv, rv = zeval(l, pt), zeval(r, pt)
                if not close(lv, rv, rel=1e-9, abs_=1e-12):
                    return pt, i, lv, rv
        except Exception:
            continue
    return None


REPLAY = '''
import sympy
from chempy.kinetics import integrated
name, kind, nval, comp = %(name)r, %(kind)r, %(nval)r, %(comp)r
vals = %(vals)s
f = getattr(integrated, %(fn)r)
t = sympy.Symbol("t")
syms = {k: sympy.Symbol(k, positive=True) for k in vals if k != "t"}
scope = dict(syms); scope.update(f=f, be=sympy, n=nval, t=t)
res = eval(%(call)r, {}, scope)
comps = list(res) if isinstance(res, tuple) else [res]
subs = {syms[k]: sympy.Rational(str(v)) for k, v in vals.items() if k != "t"}
tv = sympy.Rational(str(vals["t"])) if kind == "ode" else 0
sc = dict(syms); sc["n"] = nval
for i, c in enumerate(comps): sc["y%%d" %% i] = c
if kind == "ode":
    lhs = sympy.diff(comps[comp], t); rhs = eval(%(rhs)r, {}, sc)
else:
    lhs = comps[comp]; rhs = eval(%(init)r, {}, sc)
lv = sympy.N(lhs.subs(subs).subs(t, tv), 30); rv = sympy.N(sympy.sympify(rhs).subs(subs).subs(t, tv), 30)
print("%%s %%s component %%d at %%s: lhs=%%s rhs=%%s" %% (name, kind, comp, vals, lv, rv))
ok = abs(lv - rv) <= 1e-9 * max(1, abs(lv), abs(rv))
sys.exit(0 if ok else 1)
'''


REPLAY_NUM = '''
sys.path.insert(0, "/verif")
import math
from vlib.dual import Dual
from chempy.kinetics import integrated
f = getattr(integrated, %(fn)r)
vals = %(vals)s
kind, nval, comp = %(kind)r, %(nval)d, %(comp)d


class FB(object):   # float backend with the chain rules for dual numbers (value, d/dt)
    pi, e = math.pi, math.e
    @staticmethod
    def _ap(x, fv, fd):
        return Dual(fv(x.v), fd(x.v) * x.d) if isinstance(x, Dual) else fv(x)
    def exp(self, x): return self._ap(x, math.exp, math.exp)
    def sqrt(self, x): return self._ap(x, math.sqrt, lambda v: 0.5 / math.sqrt(v))
    def tanh(self, x): return self._ap(x, math.tanh, lambda v: 1 - math.tanh(v) ** 2)
    def atanh(self, x): return self._ap(x, math.atanh, lambda v: 1 / (1 - v * v))
    arctanh = atanh
    def log(self, x): return self._ap(x, math.log, lambda v: 1 / v)


sc = {k: float(Fraction(v)) for k, v in vals.items() if k != "t"}
tv = float(Fraction(vals["t"])) if kind == "ode" else 0.0
sc.update(f=f, be=FB(), n=nval, t=Dual(tv, 1.0))
try:
    res = eval(%(call)r, {}, sc)
except (ZeroDivisionError, ValueError, OverflowError) as e:
    print("not evaluable at this point: %%r" %% (e,)); sys.exit(0)
comps = list(res) if isinstance(res, tuple) else [res]
for i, c in enumerate(comps): sc["y%%d" %% i] = c.v if isinstance(c, Dual) else c
c = comps[comp]
if kind == "ode":
    lhs = c.d if isinstance(c, Dual) else 0.0; rhs = eval(%(rhs)r, {}, sc)
else:
    lhs = c.v if isinstance(c, Dual) else c; rhs = eval(%(init)r, {}, sc)
print("%%s %%s component %%d at %%s: lhs=%%r rhs=%%r" %% (%(name)r, kind, comp, vals, lhs, rhs))
ok = abs(lhs - rhs) <= 1e-7 * max(1.0, abs(lhs), abs(rhs))
sys.exit(0 if ok else 1)
'''


def _domain(name):
    spec = CASES[name]
    P = {p: Real(p) for p in spec["params"]}
    assum = [(P[p].t >= 0) if p in MAY_BE_ZERO else (P[p].t > 0) for p in spec["params"]] + [z3.Real("t") >= 0]
    for e in spec["extra"]:
        assum.append(eval(e, {}, dict(P)).t)
    return assum


def ob(name, kind, nval=1, seed=0):
    t0 = time.time()
    from chempy.kinetics import integrated
    from vlib.zsym import Ctx, SymTypeError

    spec = CASES[name]
    forked = False
    try:
        f, P, tsym, pairs, assum = _sides(name, kind, nval)
        variants = [(pairs, assum)]
    except SymTypeError:
        # the implementation branches on a value (e.g. an early return for a special case): explore every branch with solver-decided forks
        forked = True
        variants = []
        exc_paths = []
        ctx = Ctx(_domain(name), max_paths=64)
        for path in ctx.iter_paths(lambda: _sides(name, kind, nval)):
            if path.kind == "exc":
                exc_paths.append(path)
                continue
            f, P, tsym, pairs_, assum_ = path.value
            variants.append((pairs_, list(assum_) + list(path.pc)))
        if not variants:
            return dict(engine="Z+AD", functions=[], obligations=1, discharged=0, violations=[], inconclusive=["no evaluable branch: %r" % (exc_paths[0].value if exc_paths else None,)],
                        status="inconclusive", bounds="", sample={"function": name})
        pairs, assum = variants[0]
    res = dict(engine="Z+AD", functions=[env.describe(f)], obligations=sum(len(v[0]) for v in variants), discharged=0, violations=[],
               inconclusive=[], queries=0, solver_s=0.0,
               bounds="all reals: params>0, t>=0%s" % ("; " + "; ".join(spec["extra"]) if spec["extra"] else ""),
               sample={"function": name, "kind": kind, "call": spec["call"], "oracle": spec["rhs" if kind == "ode" else "init"]})
    # translator validation: term evaluated numerically == real function on floats (math backend)
    import math

    pt = {p: 0.5 + 0.25 * i for i, p in enumerate(spec["params"])}
    if "major" in pt:
        pt["major"], pt["minor"] = 3.0, 0.75
    if name == "binary_irrev_cstr":
        pt.update(k=0.5, r=0.1, fr=2.0, fv=1.5)
    pt["t"] = 0.0 if kind == "init" else 0.7
    scope = dict(pt)

    class MB(object):
        exp, sqrt, tanh, atanh, cos = math.exp, math.sqrt, math.tanh, math.atanh, math.cos
        arctanh = math.atanh

    scope.update(f=f, be=MB, n=nval)
    if name.endswith("_t0"):
        scope["t"] = pt["t"]
    real = eval(spec["call"], {}, scope)
    real = list(real) if isinstance(real, tuple) else [real]
    if kind == "init" and not forked:
        for i, (l, r) in enumerate(pairs):
            if not close(zeval(l, pt), real[i], rel=1e-9):
                res.update(status="error", detail="translator validation failed: term %s vs real %s" % (zeval(l, pt), real[i]))
                return res
    # twin
    if not forked:
        _, _, _, tpairs, tassum = _sides(name, kind, nval, twin=True)
        tn = UFNorm(tassum, timeout_ms=5000)
        tv, _ = tn.prove(z3.And(*[l == r for l, r in tpairs]))
        res["twin"] = "violated" if tv == "sat" else ("passed" if tv == "unsat" else "unknown")
    else:
        res["twin"] = "n/a"
        res["bounds"] += " (forking fallback: %d branches)" % len(variants)
    work = [(vi, i, l, r, a_) for vi, (prs, a_) in enumerate(variants) for i, (l, r) in enumerate(prs)]
    for vi, i, l, r, assum in work:
        norm = UFNorm(assum, timeout_ms=10000)
        v, m = norm.prove(l == r, timeout_ms=60000)
        res["queries"] += 1 + norm.stats["arg_queries"]
        res["solver_s"] += norm.stats["solver_s"]
        if v == "unsat":
            res["discharged"] += 1
            continue
        w = _witness([(l, r)], assum, P, tsym, m, norm, seed)
        if w is None:
            res["inconclusive"].append("%s component %d: solver %s, no concrete witness found" % (kind, i, v))
            continue
        pt, _, lv, rv = w
        vals = {k: str(val) for k, val in pt.items()}
        if forked:
            # a branch taken only for particular VALUES cannot be replayed through sympy (structural comparisons): numeric dual numbers
            res["violations"].append(dict(
                key="%s.%s.%d.branch" % (spec.get("fn", name), kind, i), soft=True,
                desc="%s (branch %d): %s of component %d is %s but the documented %s gives %s at %s" % (
                    name, vi, "d/dt" if kind == "ode" else "value at t=0", i, mpstr(lv),
                    "rate equation" if kind == "ode" else "initial concentration", mpstr(rv), vals),
                replay_src=REPLAY_NUM % dict(name=name, kind=kind, nval=nval, comp=i, vals=repr(vals), fn=spec.get("fn", name), call=spec["call"],
                                             rhs=spec["rhs"][i], init=spec["init"][i])))
            continue
        res["violations"].append(dict(
            key="%s.%s.%d" % (spec.get("fn", name), kind, i),
            desc="%s: %s of component %d is %s but the documented %s gives %s at %s" % (
                name, "d/dt" if kind == "ode" else "value at t=0", i, mpstr(lv),
                "rate equation" if kind == "ode" else "initial concentration", mpstr(rv), vals),
            replay_src=REPLAY % dict(name=name, kind=kind, nval=nval, comp=i, vals=repr(vals), fn=spec.get("fn", name),
                                     call=spec["call"].replace("t + t0", "t + t0") if kind == "ode" else spec["call"].replace("f(t + t0", "f(0 + t0").replace("f(t,", "f(0*t,"),
                                     rhs=spec["rhs"][i], init=spec["init"][i])))
    res["status"] = "violation" if res["violations"] else ("inconclusive" if res["inconclusive"] else "discharged")
    res["wall_s"] = round(time.time() - t0, 3)
    return res


def mpstr(x):
    import mpmath

    return mpmath.nstr(x, 12)


def ob_disc(seed=0):
    """binary_rev: the argument of sqrt is positive for all positive parameters (domain lemma)"""
    from chempy.kinetics import integrated

    calls = []

    class B(ZBackend):
        def __getattr__(self, nme):
            g = ZBackend.__getattr__(self, nme)
            if nme == "sqrt":
                def h(x):
                    calls.append(x)
                    return g(x)
                return h
            return g

    P = {p: Real(p) for p in CASES["binary_rev"]["params"]}
    integrated.binary_rev(Real("t"), P["kf"], P["kb"], P["prod"], P["major"], P["minor"], backend=B())
    assert len(calls) == 1
    s = z3.Solver()
    s.set("timeout", 60000)
    s.add(*[v.t > 0 for v in P.values()])
    s.add(z3.Not(calls[0].t > 0))
    t0 = time.time()
    r = str(s.check())
    s2 = z3.Solver()
    s2.add(*[v.t > 0 for v in P.values()])
    s2.add(z3.Not(calls[0].t > P["kb"].t * P["kb"].t + 1))
    twin = str(s2.check())
    return dict(engine="Z", functions=[env.describe(integrated.binary_rev)], status="discharged" if r == "unsat" else "inconclusive",
                detail="sqrt argument > 0: %s" % r, queries=2, solver_s=time.time() - t0,
                twin="violated" if twin == "sat" else "passed", bounds="all positive reals",
                sample={"lemma": "binary_rev discriminant > 0", "term": str(z3.simplify(calls[0].t))[:300]})


REPLAY_ARR = '''
import math
import numpy as np
from chempy.kinetics import integrated
f = getattr(integrated, %(fn)r)
name, nval = %(name)r, %(nval)d
pt = %(pt)s
scope = dict(pt)
scope.update(f=f, be=np, n=nval)
T = np.array([pt["t"], pt["t"] + 1.25]) + (pt.get("t0", 0.0) if name.endswith("_t0") else 0.0)
T_before = T.copy()
scope["T"] = T
call = %(call)r
r1 = eval(call, {}, scope)
r1 = [np.array(c, dtype=float).copy() for c in (r1 if isinstance(r1, tuple) else [r1])]
bad = []
if not (T == T_before).all(): bad.append("the call changed the caller's time array: %%s -> %%s" %% (T_before, T))
r2 = eval(call, {}, scope)
r2 = [np.array(c, dtype=float) for c in (r2 if isinstance(r2, tuple) else [r2])]
for i, (a, b) in enumerate(zip(r1, r2)):
    if not np.allclose(a, b, rtol=1e-12, atol=0): bad.append("component %%d: second evaluation on the same array gives %%s, first gave %%s" %% (i, b, a))
for j in range(2):
    scope["T"] = float(T_before[j])
    rs = eval(call, {}, scope)
    rs = list(rs) if isinstance(rs, tuple) else [rs]
    for i, v in enumerate(rs):
        if abs(float(v) - r1[i][j]) > 1e-9 * abs(float(v)): bad.append("component %%d at t[%%d]: array evaluation %%r, scalar evaluation %%r" %% (i, j, r1[i][j], float(v)))
if "backend=be" in call:
    scope["T"] = float(T_before[0]); scope["be"] = None
    rd = eval(call, {}, scope); rd = list(rd) if isinstance(rd, tuple) else [rd]
    for i, v in enumerate(rd):
        if abs(float(v) - r1[i][0]) > 1e-9 * abs(float(v)): bad.append("component %%d: default backend gives %%r, numpy backend %%r" %% (i, float(v), r1[i][0]))
for b in bad: print("MISMATCH", b)
sys.exit(1 if bad else 0)
'''


def ob_array(name, nval=1, seed=0):
    """history with a time GRID (object ndarray of symbolic instants): element-wise the same as the scalar evaluation, the caller's
    array is left untouched, and a second evaluation on the same array gives the same values"""
    import numpy as np
    from chempy.kinetics import integrated

    t0_ = time.time()
    spec = CASES[name]
    f = getattr(integrated, spec.get("fn", name))
    P = {p: Real(p) for p in spec["params"]}
    ta, tb = Real("t"), Real("tb")
    be = ZBackend()
    first, rest = spec["call"].split(",", 1)
    first = first[len("f("):]
    call = "f(T," + rest
    scope = dict(P)
    scope.update(f=f, be=be, n=nval)
    res = dict(engine="Z", functions=[env.describe(f)], obligations=0, discharged=0, violations=[], inconclusive=[], queries=0, solver_s=0.0,
               bounds="time grid of 2 symbolic instants, all positive parameters", sample={"function": name, "call": call, "T": "object ndarray"})
    try:
        scope["t"] = np.array([ta, tb], dtype=object)
        T = eval(first, {}, scope)          # e.g. t or t + t0: the caller's own grid
        orig = list(T)
        scope["T"] = T
        r1 = eval(call, {}, scope)
        r1 = [list(c) for c in (r1 if isinstance(r1, tuple) else [r1])]
        after = list(T)
        r2 = eval(call, {}, scope)
        r2 = [list(c) for c in (r2 if isinstance(r2, tuple) else [r2])]
        scal = []
        for tj in orig:
            scope["T"] = tj
            rs = eval(call, {}, scope)
            scal.append(list(rs) if isinstance(rs, tuple) else [rs])
        # the default backend (backend=None -> numpy; its object-dtype loops call .exp()/.sqrt()/... of the symbols): same closed form
        rdef = None
        if "backend=be" in call:
            scope["be"] = None
            scope["T"] = orig[0]
            rd = eval(call, {}, scope)
            rdef = list(rd) if isinstance(rd, tuple) else [rd]
            scope["be"] = be
    except Exception as e:
        from vlib.zrun import wrapper_exc

        res["obligations"] = 1
        if wrapper_exc(e):
            res["inconclusive"].append("array evaluation not carried by the wrapper: %r" % (e,))
        else:
            res["violations"].append(dict(key="%s.array.exc" % name, soft=True, desc="%s on a time grid raised %r" % (name, e),
                                          replay_src=_arr_replay(name, nval, spec, call)))
        res["status"] = "violation" if res["violations"] else "inconclusive"
        return res
    assum = [(P[p].t >= 0) if p in MAY_BE_ZERO else (P[p].t > 0) for p in spec["params"]] + [ta.t >= 0, tb.t >= 0]
    goals = []
    for i in range(len(r1)):
        for j in range(2):
            goals.append(("scalar", term(r1[i][j]) == term(scal[j][i])))
            goals.append(("repeat", term(r2[i][j]) == term(r1[i][j])))
    for a_, b_ in zip(after, orig):
        goals.append(("untouched", term(a_) == term(b_)))
    if rdef is not None:
        for i in range(len(rdef)):
            goals.append(("default_backend", term(rdef[i]) == term(scal[0][i])))
    res["obligations"] = len(goals)
    bad = None
    for kind, g in goals:
        norm = UFNorm(assum, timeout_ms=10000)
        v, m = norm.prove(g, timeout_ms=30000)
        res["queries"] += 1 + norm.stats["arg_queries"]
        if v == "unsat":
            res["discharged"] += 1
        elif v == "sat":
            bad = bad or kind
        else:
            res["inconclusive"].append("%s: solver %s" % (kind, v))
    tw = UFNorm(assum, timeout_ms=5000).prove(term(r1[0][0]) == term(scal[1][0]))[0]
    res["twin"] = "violated" if tw == "sat" else ("passed" if tw == "unsat" else "unknown")
    if bad:
        res["violations"].append(dict(key="%s.array.%s" % (name, bad), soft=True,
                                      desc="%s on a time grid: %s" % (name, {"untouched": "the caller's array was modified", "scalar": "differs from the scalar evaluation",
                                                                              "repeat": "second evaluation on the same array differs",
                                                                              "default_backend": "the default backend (backend=None) gives another closed form"}[bad]),
                                      replay_src=_arr_replay(name, nval, spec, call)))
    res["solver_s"] = time.time() - t0_
    res["status"] = "violation" if res["violations"] else ("inconclusive" if res["inconclusive"] else "discharged")
    return res


REPLAY_PARR = '''
import numpy as np
from chempy.kinetics import integrated
f = getattr(integrated, %(fn)r)
name, nval, pname = %(name)r, %(nval)d, %(pname)r
pt = %(pt)s
scope = dict(pt); scope.update(f=f, be=np, n=nval, T=pt["t"])
call = %(call)r
A = np.array([pt[pname], pt[pname] * 1.5 + 0.125]); A0 = A.copy()
scope[pname] = A
r1 = eval(call, {}, scope)
r1 = [np.array(c, dtype=float).copy() for c in (r1 if isinstance(r1, tuple) else [r1])]
bad = []
if not (A == A0).all(): bad.append("the call changed the caller's %%s array: %%s -> %%s" %% (pname, A0, A))
scope[pname] = A0.copy()
r2 = eval(call, {}, scope)
r2 = [np.array(c, dtype=float) for c in (r2 if isinstance(r2, tuple) else [r2])]
for i, (a, b) in enumerate(zip(r1, r2)):
    if not np.allclose(a, b, rtol=1e-12, atol=0): bad.append("component %%d: a second evaluation gives %%s, first gave %%s" %% (i, b, a))
for j in range(2):
    scope[pname] = float(A0[j])
    rs = eval(call, {}, scope)
    rs = list(rs) if isinstance(rs, tuple) else [rs]
    for i, v in enumerate(rs):
        if abs(float(v) - r1[i][j]) > 1e-9 * abs(float(v)): bad.append("component %%d at %%s[%%d]: array evaluation %%r, scalar evaluation %%r" %% (i, pname, j, r1[i][j], float(v)))
for b in bad: print("MISMATCH", b)
sys.exit(1 if bad else 0)
'''


def ob_param_array(name, nval=1, seed=0):
    """history with an array-valued PARAMETER (one at a time, object ndarray of two symbolic values, scalar time): element-wise the same
    as the two scalar evaluations, and the caller's array still holds its values afterwards"""
    import numpy as np
    from chempy.kinetics import integrated
    from vlib.zrun import wrapper_exc

    t0_ = time.time()
    spec = CASES[name]
    f = getattr(integrated, spec.get("fn", name))
    P = {p: Real(p) for p in spec["params"]}
    P2 = {p: Real(p + "_b") for p in spec["params"]}
    tsym = Real("t")
    be = ZBackend()
    call = "f(T," + spec["call"].split(",", 1)[1]
    res = dict(engine="Z", functions=[env.describe(f)], obligations=0, discharged=0, violations=[], inconclusive=[], queries=0, solver_s=0.0,
               bounds="each parameter in turn as an array of 2 symbolic values, scalar symbolic time", sample={"function": name, "call": call},
               skipped=[])
    assum = [(q[p].t >= 0) if p in MAY_BE_ZERO else (q[p].t > 0) for p in spec["params"] for q in (P, P2)] + [tsym.t >= 0]
    for pname in spec["params"]:
        if pname == "t0":
            continue
        scope = dict(P)
        scope.update(f=f, be=be, n=nval, T=tsym + (P["t0"] if "t0" in P else 0))
        try:
            A = np.array([P[pname], P2[pname]], dtype=object)
            scope[pname] = A
            r1 = eval(call, {}, scope)
            r1 = [list(c) for c in (r1 if isinstance(r1, tuple) else [r1])]
            after = list(A)
            scal = []
            for v in (P[pname], P2[pname]):
                scope[pname] = v
                rs = eval(call, {}, scope)
                scal.append(list(rs) if isinstance(rs, tuple) else [rs])
        except Exception as e:
            if wrapper_exc(e) or isinstance(e, (TypeError, ValueError)):
                res["skipped"].append("%s: %r" % (pname, e))     # array-valued use of this parameter is not carried (not counted)
                continue
            raise
        goals = []
        for i in range(len(r1)):
            for j in range(2):
                goals.append(("scalar", term(r1[i][j]) == term(scal[j][i])))
        goals.append(("untouched", z3.And(term(after[0]) == P[pname].t, term(after[1]) == P2[pname].t)))
        bad = None
        for kind, g in goals:
            res["obligations"] += 1
            norm = UFNorm(assum, timeout_ms=10000)
            v, m = norm.prove(g, timeout_ms=30000)
            res["queries"] += 1 + norm.stats["arg_queries"]
            if v == "unsat":
                res["discharged"] += 1
            elif v == "sat":
                bad = bad or kind
            else:
                res["inconclusive"].append("%s/%s: solver %s" % (pname, kind, v))
        if bad:
            pt = _arr_point(name, spec)
            res["violations"].append(dict(key="%s.parray.%s.%s" % (name, pname, bad), soft=True,
                                          desc="%s with an array for %s: %s" % (name, pname, {"untouched": "the caller's array was modified",
                                                                                               "scalar": "differs from the scalar evaluations"}[bad]),
                                          replay_src=REPLAY_PARR % dict(fn=spec.get("fn", name), name=name, nval=nval, pname=pname, pt=repr(pt),
                                                                        call=call.replace("T,", "T + t0," if name.endswith("_t0") else "T,", 1))))
    res["twin"] = "n/a"
    res["solver_s"] = time.time() - t0_
    res["status"] = "violation" if res["violations"] else ("inconclusive" if res["inconclusive"] else "discharged")
    return res


def _arr_point(name, spec):
    pt = {p: 0.5 + 0.25 * i for i, p in enumerate(spec["params"])}
    if "major" in pt:
        pt["major"], pt["minor"] = 3.0, 0.75
    if name == "binary_irrev_cstr":
        pt.update(k=0.5, r=0.1, fr=2.0, fv=1.5)
    pt["t"] = 0.7
    return pt


def _arr_replay(name, nval, spec, call):
    pt = {p: 0.5 + 0.25 * i for i, p in enumerate(spec["params"])}
    if "major" in pt:
        pt["major"], pt["minor"] = 3.0, 0.75
    if name == "binary_irrev_cstr":
        pt.update(k=0.5, r=0.1, fr=2.0, fv=1.5)
    pt["t"] = 0.7
    return REPLAY_ARR % dict(fn=spec.get("fn", name), name=name, nval=nval, pt=repr(pt), call=call)


def tasks(tier, seed):
    ts = []
    for name, spec in CASES.items():
        ns = spec.get("ns", [1])
        if tier == "quick":
            ns = ns[:2]
        for nval in ns:
            for kind in ("ode", "init"):
                ts.append(dict(id="C17.%s%s.%s" % (name, (".n%d" % nval) if len(spec.get("ns", [1])) > 1 else "", kind),
                               fn="ob", kwargs=dict(name=name, kind=kind, nval=nval, seed=seed), timeout=300))
    for name in CASES:
        ts.append(dict(id="C17.%s.array" % name, fn="ob_array", kwargs=dict(name=name, nval=1, seed=seed), timeout=300))
        ts.append(dict(id="C17.%s.param_array" % name, fn="ob_param_array", kwargs=dict(name=name, nval=1, seed=seed), timeout=600))
    ts.append(dict(id="C17.binary_rev.discriminant", fn="ob_disc", kwargs=dict(seed=seed), timeout=120))
    return ts
