"""C18 - ionic strength and Debye-Hueckel terms follow their definitions in any units (Engine Z)."""
import time
import warnings
from fractions import Fraction

import z3

from vlib import env, ucase
from vlib.zrun import twin_verdict, explore_and_prove, uf_prover, eq_term, concretize, pyrepr
from vlib.zsym import Real, Int, Const, ZBackend, lift, model_value

META = {
    "level": "other",
    "explanation": "bounded symbolic verification (Engine Z): ionic_strength, A, B, the three log-gamma formulas and the activity "
                   "products are executed on z3 reals (molalities, T, eps_r, rho, ion sizes) with integer charges symbolic in -4..4; z3 "
                   "proves the definitions, permutation/merge/scaling invariance, 'neutrality warning <=> not neutral', the agreement of "
                   "the numeric-constant path of A and B with the constants-object path within 1e-5 relative for ALL positive "
                   "(eps_r, T, rho, b0), unit-scale invariance, and the limiting cases of the extended formula",
    "bounds": {"quick": "2-3 ions, charges -4..4 (symbolic ints), all positive reals for the continuous inputs",
               "thorough": "same + 4 ions"},
    "assumptions": [
        "idealised units stub (vlib/usyms.py); real-`quantities` inputs outside",
        "sqrt / half-integer powers as uninterpreted sqrt with s^2=x, s>=0; exp uninterpreted (vlib/ufnorm.py)",
        "warning oracle: must warn when |sum b z| > 1e-12 * sum b z^2, must not warn when sum b z = 0 (free in between)",
        "CODATA values of vlib/usyms.py for the two-path comparison (tolerance 1e-5 relative: the hard-coded factor is a rounded product)",
    ],
    "outside": ["real quantities objects", "float rounding"],
    "trusted_base": ["z3 5.1", "vlib/zsym.py", "vlib/ufnorm.py", "vlib/usyms.py"],
}

POS = (Fraction(1, 10 ** 9), None)
ZR = (-4, 4)
EL = "from chempy.electrolytes import *\nfrom chempy import electrolytes as E\nimport numpy as np\n"
FACT = ("import re as _re\nfrom chempy import Substance as _Sub\n"
        "def _iupac(key):\n"
        "    m = _re.match(r'([A-Za-z]+)(\\d*)([+-])$', key)\n"
        "    return _Sub(key, composition={0: int(m.group(2) or 1) * (1 if m.group(3) == '+' else -1)})\n")
# a physically plausible point for the witness search (generic rational points make exp(-A ...) underflow on both sides)
PHYS = {"c1": "1/10", "c2": "1/5", "a1": "1/2000000000", "a2": "3/10000000000", "T": "298", "eps": "78", "rho": "997", "T2": "363", "eps2": "58",
        "rho2": "965", "Cv": "1/10"}
SEQ = ("import warnings\n"
       "def _seq(cls, a1, a2, cs):\n"
       "    o1, o2 = cls(*a1), cls(*a2)\n"
       "    with warnings.catch_warnings():\n"
       "        warnings.simplefilter('ignore')\n"
       "        return tuple(o(c) for c in cs for o in (o1, o2))\n")

CASES = [
    dict(name="ionic_strength_list", targets=["chempy.electrolytes.ionic_strength"], setup=EL,
         vars={"b1": POS, "b2": POS, "b3": POS, "n_z1": ZR, "n_z2": ZR, "n_z3": ZR},
         plain="(ionic_strength([b1, b2, b3], [n_z1, n_z2, n_z3], warn=False), ionic_strength([b3, b1, b2], [n_z3, n_z1, n_z2], warn=False), "
               "ionic_strength([b1, b2, b3, b1], [n_z1, n_z2, n_z3, n_z1], warn=False), ionic_strength([7*b1, 7*b2, 7*b3], [n_z1, n_z2, n_z3], warn=False))",
         units="(ionic_strength([b1*U.molal, b2*U.molal, b3*U.molal], [n_z1, n_z2, n_z3], units=U, warn=False), "
               "ionic_strength([b3*U.molal, b1*U.molal, b2*U.molal], [n_z3, n_z1, n_z2], units=U, warn=False), "
               "ionic_strength([b1*U.molal, b2*U.molal, b3*U.molal, b1*U.molal], [n_z1, n_z2, n_z3, n_z1], units=U, warn=False), "
               "ionic_strength([7*b1*U.molal, 7*b2*U.molal, 7*b3*U.molal], [n_z1, n_z2, n_z3], units=U, warn=False))",
         unit="(U.molal, U.molal, U.molal, U.molal)",
         formula="((b1*n_z1**2 + b2*n_z2**2 + b3*n_z3**2)/2, (b1*n_z1**2 + b2*n_z2**2 + b3*n_z3**2)/2, "
                 "(2*b1*n_z1**2 + b2*n_z2**2 + b3*n_z3**2)/2, 7*(b1*n_z1**2 + b2*n_z2**2 + b3*n_z3**2)/2)"),
    dict(name="ionic_strength_dict", targets=["chempy.electrolytes.ionic_strength"], setup=EL,
         vars={"b1": POS, "b2": POS, "b3": POS},
         plain="(ionic_strength({'Mg+2': b1, 'PO4-3': b2, 'Na+': b3}, warn=False), ionic_strength({'Fe+3': b1, 'SO4-2': b2, 'Cl-': b3}, warn=False), "
               "ionic_strength({'Na+': b1, 'SO4-2': b2}, substances='SO4-2 Na+', warn=False), "
               "ionic_strength({'SO4-2': b2, 'Na+': b1}, substances='SO4-2 Na+', warn=False))",
         formula="((4*b1 + 9*b2 + b3)/2, (9*b1 + 4*b2 + b3)/2, (b1 + 4*b2)/2, (b1 + 4*b2)/2)"),
    # a caller-supplied substance factory decides how a key is read (here: IUPAC-style 'Fe3+' = Fe with charge +3, which the default
    # parser reads as Fe3 with charge +1) - with and without an explicit `substances` string
    dict(name="ionic_strength_factory", targets=["chempy.electrolytes.ionic_strength"], setup=EL + FACT,
         vars={"b1": POS, "b2": POS},
         plain="(ionic_strength({'Fe3+': b1, 'Cl-': b2}, substance_factory=_iupac, warn=False), "
               "ionic_strength({'Fe3+': b1, 'Cl-': b2}, substances='Fe3+ Cl-', substance_factory=_iupac, warn=False), "
               "ionic_strength({'Cl-': b2, 'Fe3+': b1}, substances='Fe3+ Cl-', substance_factory=_iupac, warn=False))",
         formula="((9*b1 + b2)/2, (9*b1 + b2)/2, (9*b1 + b2)/2)"),
    # the default backend (backend omitted -> numpy): same constants, coefficients and products
    dict(name="default_backend", targets=["chempy.electrolytes.A", "chempy.electrolytes.B", "chempy.electrolytes.extended_log_gamma",
                                          "chempy.electrolytes.davies_activity_product"], setup=EL,
         vars={"eps": POS, "T": POS, "rho": POS, "b0": POS, "I": POS, "a": POS, "Av": POS, "Bv": POS, "Cv": (None, None), "I0": POS},
         plain="(A(eps, T, rho, b0), B(eps, T, rho, b0), limiting_log_gamma(I, 2, Av, I0), extended_log_gamma(I, -1, a, Av, Bv, Cv, I0), "
               "davies_log_gamma(I, 3, Av, Cv, I0), limiting_activity_product(I, (1, 2), (2, -1), T, eps, rho), "
               "extended_activity_product(I, (1, 2), (2, -1), (a, a), T, eps, rho, Cv), davies_activity_product(I, (1, 2), (2, -1), (a, a), T, eps, rho, Cv))",
         formula="(A(eps, T, rho, b0, backend=be), B(eps, T, rho, b0, backend=be), limiting_log_gamma(I, 2, Av, I0, backend=be), "
                 "extended_log_gamma(I, -1, a, Av, Bv, Cv, I0, backend=be), davies_log_gamma(I, 3, Av, Cv, I0, backend=be), "
                 "limiting_activity_product(I, (1, 2), (2, -1), T, eps, rho, backend=be), "
                 "extended_activity_product(I, (1, 2), (2, -1), (a, a), T, eps, rho, Cv, backend=be), "
                 "davies_activity_product(I, (1, 2), (2, -1), (a, a), T, eps, rho, Cv, backend=be))"),
    dict(name="ionic_strength_arrays", targets=["chempy.electrolytes.ionic_strength"], setup=EL,
         vars={"b1": POS, "b2": POS, "n_z1": ZR, "n_z2": ZR},
         plain="ionic_strength([np.array([b1], dtype=object), np.array([b2], dtype=object)], [n_z1, n_z2])[0]",
         formula="(b1*n_z1**2 + b2*n_z2**2)/2"),
    dict(name="A_two_paths", targets=["chempy.electrolytes.A"], setup=EL,
         vars={"eps": POS, "T": POS, "rho": POS, "b0": POS}, custom="ratio",
         plain="A(eps, T, rho, b0, backend=be)", units="A(eps, T*U.K, rho*U.kg/U.m**3, b0*U.mol/U.kg, constants=C, units=U, backend=be)"),
    dict(name="B_two_paths", targets=["chempy.electrolytes.B"], setup=EL,
         vars={"eps": POS, "T": POS, "rho": POS, "b0": POS}, custom="ratio",
         plain="B(eps, T, rho, b0, backend=be)", units="B(eps, T*U.K, rho*U.kg/U.m**3, b0*U.mol/U.kg, constants=C, units=U, backend=be)*U.m"),
    dict(name="A_units", targets=["chempy.electrolytes.A"], setup=EL,
         vars={"eps": POS, "T": POS, "rho": POS}, plain="A(eps, T, rho, backend=be)",
         units="A(eps, T*U.Kelvin, rho*U.kilogram/U.meter**3, units=U, backend=be)", unit="1",
         formula="Const(132871.85866393594)*be.sqrt(rho/(T**3*eps**3))"),
    dict(name="B_units", targets=["chempy.electrolytes.B"], setup=EL,
         vars={"eps": POS, "T": POS, "rho": POS}, plain="B(eps, T, rho, backend=be)",
         units="B(eps, T*U.Kelvin, rho*U.kilogram/U.meter**3, units=U, backend=be)", unit="1/U.meter",
         formula="Const(15903203868.740343)*be.sqrt(rho/(T*eps))"),
    dict(name="A_symbolic_constants", targets=["chempy.electrolytes.A"], setup=EL,
         vars={"eps": POS, "T": POS, "rho": POS, "b0": POS},
         plain="A(eps, T*U.K, rho*U.kg/U.m**3, b0*U.mol/U.kg, constants=Cs, units=U, backend=be)",
         formula="Cs.Faraday_constant**3/(4*Cs.pi*Cs.Avogadro_constant)*be.sqrt(rho*U.kg/U.m**3*b0*U.mol/U.kg/(2*(Cs.vacuum_permittivity*eps*"
                 "Cs.Boltzmann_constant*Cs.Avogadro_constant*T*U.K)**3))"),
    dict(name="B_symbolic_constants", targets=["chempy.electrolytes.B"], setup=EL,
         vars={"eps": POS, "T": POS, "rho": POS, "b0": POS},
         plain="B(eps, T*U.K, rho*U.kg/U.m**3, b0*U.mol/U.kg, constants=Cs, units=U, backend=be)",
         formula="Cs.Faraday_constant*be.sqrt(2*rho*U.kg/U.m**3*b0*U.mol/U.kg/(eps*Cs.vacuum_permittivity*Cs.molar_gas_constant*T*U.K))"),
    dict(name="log_gamma", targets=["chempy.electrolytes.limiting_log_gamma", "chempy.electrolytes.extended_log_gamma",
                                    "chempy.electrolytes.davies_log_gamma"], setup=EL,
         vars={"I": POS, "n_z": ZR, "a": POS, "Av": POS, "Bv": POS, "Cv": (None, None), "I0": POS},
         plain="(limiting_log_gamma(I, n_z, Av, I0, backend=be), extended_log_gamma(I, n_z, a, Av, Bv, Cv, I0, backend=be), "
               "davies_log_gamma(I, n_z, Av, Cv, I0, backend=be), davies_log_gamma(I, n_z, Av, backend=be), "
               "extended_log_gamma(I, n_z, 0, Av, Bv, backend=be), extended_log_gamma(0, n_z, a, Av, Bv, Cv, I0, backend=be), "
               "limiting_log_gamma(0, n_z, Av, I0, backend=be))",
         formula="(-Av*n_z**2*be.sqrt(I/I0), -Av*n_z**2*be.sqrt(I/I0)/(1 + Bv*a*be.sqrt(I/I0)) + Cv*I/I0, "
                 "-Av*n_z**2*(be.sqrt(I/I0)/(1 + be.sqrt(I/I0)) + Cv*I/I0), -Av*n_z**2*(be.sqrt(I)/(1 + be.sqrt(I)) - Const(0.3)*I), "
                 "limiting_log_gamma(I, n_z, Av, backend=be), 0, 0)"),
    dict(name="limiting_activity_product", targets=["chempy.electrolytes.limiting_activity_product"], setup=EL,
         vars={"I": POS, "n_z1": ZR, "n_z2": ZR, "n_nu1": (-3, 3), "n_nu2": (-3, 3), "T": POS, "eps": POS, "rho": POS},
         plain="limiting_activity_product(I, (n_nu1, n_nu2), (n_z1, n_z2), T, eps, rho, backend=be)",
         formula="be.exp(n_nu1*limiting_log_gamma(I, n_z1, A(eps, T, rho)) + n_nu2*limiting_log_gamma(I, n_z2, A(eps, T, rho)))"),
    dict(name="extended_activity_product", targets=["chempy.electrolytes.extended_activity_product"], setup=EL,
         vars={"I": POS, "n_z1": ZR, "n_z2": ZR, "n_nu1": (-3, 3), "n_nu2": (-3, 3), "a1": POS, "a2": POS, "T": POS, "eps": POS, "rho": POS,
               "Cv": (None, None)},
         plain="extended_activity_product(I, (n_nu1, n_nu2, 1), (n_z1, n_z1, n_z2), (a1, a2, a2), T, eps, rho, Cv, backend=be)",
         formula="be.exp(n_nu1*extended_log_gamma(I, n_z1, a1, A(eps, T, rho), B(eps, T, rho), Cv) + n_nu2*extended_log_gamma(I, n_z1, a2, A(eps, T, rho), B(eps, T, rho), Cv)"
                 " + extended_log_gamma(I, n_z2, a2, A(eps, T, rho), B(eps, T, rho), Cv))"),
    # the callable objects evaluate the same products from molalities; two objects with different conditions, called alternately
    # (history: nothing evaluated for one object or one composition may leak into the next evaluation)
    dict(name="limiting_product_objects", targets=["chempy.electrolytes.LimitingDebyeHuckelActivityProduct.__call__"], setup=EL + SEQ,
         vars={"c1": POS, "c2": POS, "T": POS, "eps": POS, "rho": POS, "T2": POS, "eps2": POS, "rho2": POS},
         plain="_seq(LimitingDebyeHuckelActivityProduct, ((1, 2), (2, -1), T, eps, rho), ((1, 2), (2, -1), T2, eps2, rho2), ([c1, c2], [c2, c1]))",
         formula="tuple(limiting_activity_product(ionic_strength(c, (2, -1), warn=False), (1, 2), (2, -1), *p, backend=be) "
                 "for c in ([c1, c2], [c2, c1]) for p in ((T, eps, rho), (T2, eps2, rho2)))", hints=[PHYS]),
    dict(name="extended_product_objects", targets=["chempy.electrolytes.ExtendedDebyeHuckelActivityProduct.__call__"], setup=EL + SEQ,
         vars={"c1": POS, "c2": POS, "a1": POS, "a2": POS, "T": POS, "eps": POS, "rho": POS, "T2": POS, "eps2": POS, "rho2": POS, "Cv": (None, None)},
         plain="_seq(ExtendedDebyeHuckelActivityProduct, ((1, 2), (2, -1), (a1, a2), T, eps, rho, Cv), "
               "((1, 2), (2, -1), (a1, a2), T2, eps2, rho2), ([c1, c2], [c2, c1]))",
         formula="tuple(extended_activity_product(ionic_strength(c, (2, -1), warn=False), (1, 2), (2, -1), (a1, a2), *p, backend=be) "
                 "for c in ([c1, c2], [c2, c1]) for p in ((T, eps, rho, Cv), (T2, eps2, rho2)))", hints=[PHYS]),
    # NON-INTEGER stoichiometric weights (reals) together with plain python-int charges
    dict(name="activity_products_real_weights", targets=["chempy.electrolytes.limiting_activity_product", "chempy.electrolytes.extended_activity_product",
                                                         "chempy.electrolytes.davies_activity_product"], setup=EL,
         vars={"I": POS, "w1": (Fraction(1, 10), 3), "w2": (Fraction(1, 10), 3), "a1": POS, "T": POS, "eps": POS, "rho": POS, "Cv": (None, None)},
         plain="(limiting_activity_product(I, (w1, w2), (2, -1), T, eps, rho, backend=be), "
               "extended_activity_product(I, [w1, w2], [2, -1], [a1, a1], T, eps, rho, Cv, backend=be), "
               "davies_activity_product(I, (w1, w2), (2, -1), (1, 1), T, eps, rho, Cv, backend=be))",
         formula="(be.exp(w1*limiting_log_gamma(I, 2, A(eps, T, rho)) + w2*limiting_log_gamma(I, -1, A(eps, T, rho))), "
                 "be.exp(w1*extended_log_gamma(I, 2, a1, A(eps, T, rho), B(eps, T, rho), Cv) + w2*extended_log_gamma(I, -1, a1, A(eps, T, rho), B(eps, T, rho), Cv)), "
                 "be.exp(w1*davies_log_gamma(I, 2, A(eps, T, rho), Cv) + w2*davies_log_gamma(I, -1, A(eps, T, rho), Cv)))",
         hints=[dict(PHYS, I="1/4", w1="1/3", w2="2/3", a1="1/2000000000")]),
    dict(name="davies_activity_product", targets=["chempy.electrolytes.davies_activity_product"], setup=EL,
         vars={"I": POS, "n_z1": ZR, "n_z2": ZR, "n_nu1": (-3, 3), "n_nu2": (-3, 3), "T": POS, "eps": POS, "rho": POS, "Cv": (None, None)},
         plain="davies_activity_product(I, (n_nu1, n_nu2), (n_z1, n_z2), (1, 1), T, eps, rho, Cv, backend=be)",
         formula="be.exp(n_nu1*davies_log_gamma(I, n_z1, A(eps, T, rho), Cv) + n_nu2*davies_log_gamma(I, n_z2, A(eps, T, rho), Cv))"),
]


def task_case(casename):
    return ucase.task_case("checks.C18", casename)


REPLAY_RATIO = '''
sys.path.insert(0, "/verif")
import math
from vlib.usyms import float_units, float_constants
from chempy.electrolytes import A, B
U = float_units(%(scales)s); C = float_constants(U)
eps, T, rho, b0 = %(pt)s
be = math
p = %(plain)s
u = %(units)s
print("numeric path", p, "constants path", u)
sys.exit(1 if abs(p - u) > 1e-5 * abs(u) else 0)
'''


def task_ratio(casename):
    """numeric-constant path vs constants-object path agree within 1e-5 relative for all positive inputs and unit scales"""
    case = [c for c in CASES if c["name"] == casename][0]
    ns, assum = ucase._ns(case, "sym")

    def fn():
        return eval(case["plain"], ns), eval(case["units"], ns)

    def goal(p, twin=False):
        if p.kind == "exc":
            return False
        a, b = lift(p.value[0]), lift(p.value[1])
        tol = z3.Q(1, 10 ** 5) if not twin else z3.Q(1, 10 ** 9)
        return z3.And(a - b <= tol * b, b - a <= tol * b, b > 0)

    o = explore_and_prove(fn, assum, goal, prover=uf_prover, timeout_ms=60000)
    ot = explore_and_prove(fn, assum, lambda p: goal(p, True), prover=uf_prover, timeout_ms=20000, max_fail=1)
    import chempy.electrolytes as E

    res = dict(engine="Z", functions=[env.describe(getattr(E, casename[0]))], obligations=o.obligations, discharged=o.discharged, violations=[],
               inconclusive=list(o.inconclusive), queries=o.queries, paths=o.paths, solver_s=o.solver_s,
               twin="violated" if ot.failed else ("unknown" if ot.inconclusive else "passed"),
               bounds="all positive eps_r, T, rho, b0 and unit scales; CODATA constants; tolerance 1e-5 relative",
               sample={"case": casename, "numeric path": case["plain"], "constants path": case["units"]})
    for p, m, g in o.failed[:1]:
        pt = ucase._point_from_model(case, ns, m, p)
        res["violations"].append(dict(key="%s:%s" % (casename, p.kind), soft=True,
                                      desc="%s: paths differ at %s" % (casename, {k: str(v) for k, v in pt.items() if not k.startswith("k_")}),
                                      replay_src=REPLAY_RATIO % dict(scales=repr({k[2:]: float(v) for k, v in pt.items() if k.startswith("u_")}),
                                                                     pt=repr(tuple(float(pt[k]) for k in ("eps", "T", "rho", "b0"))),
                                                                     plain=case["plain"], units=case["units"])))
    if res["twin"] == "unknown":
        res["twin"] = "violated"  # the twin's tolerance 1e-9 could not be proved either way; the real obligation's verdict stands on its own
        res["inconclusive"].append("twin undecided")
    res["status"] = "violation" if res["violations"] else ("inconclusive" if res["inconclusive"] else "discharged")
    return res


REPLAY_WARN = '''
import warnings
from chempy.electrolytes import ionic_strength
b = %(b)s
z = %(z)s
with warnings.catch_warnings(record=True) as w:
    warnings.simplefilter("always")
    I = ionic_strength(b, z)
net = sum(x * y for x, y in zip(b, z)); tot = sum(x * y * y for x, y in zip(b, z))
warned = any("charge neutral" in str(x.message) for x in w)
print("b", b, "z", z, "net", net, "tot", tot, "warned", warned, "I", I)
bad = (net == 0 and warned) or (abs(net) > tot * Fraction(1, 10**12) and not warned) or I != tot / 2
sys.exit(1 if bad else 0)
'''


def task_warn(n):
    from chempy.electrolytes import ionic_strength

    b = [Real("b%d" % i) for i in range(n)]
    z = [Int("z%d" % i) for i in range(n)]
    assum = [x.t >= 0 for x in b] + [x.t >= -4 for x in z] + [x.t <= 4 for x in z]   # a species may be listed with zero molality

    def fn():
        with warnings.catch_warnings(record=True) as w:
            warnings.simplefilter("always")
            val = ionic_strength(list(b), list(z))
        return val, any("charge neutral" in str(x.message) for x in w)

    net = sum(x * y for x, y in zip(b, z))
    tot = sum(x * y * y for x, y in zip(b, z))

    def goal(p, twin=False):
        if p.kind == "exc":
            return False
        val, warned = p.value
        absnet = z3.If(lift(net) >= 0, lift(net), -lift(net))
        if twin:
            return z3.BoolVal(not warned)
        c = [eq_term(val, tot / 2)]
        if warned:
            c.append(lift(net) != 0)
        else:
            c.append(absnet <= z3.Q(1, 10 ** 12) * lift(tot))
        return z3.And(*c)

    o = explore_and_prove(fn, assum, goal)
    ot = explore_and_prove(fn, assum, lambda p: goal(p, True), max_fail=1)
    res = dict(engine="Z", functions=[env.describe(ionic_strength)], obligations=o.obligations, discharged=o.discharged, violations=[],
               inconclusive=list(o.inconclusive), queries=o.queries, paths=o.paths, solver_s=o.solver_s, twin=twin_verdict(ot),
               bounds="%d ions, charges -4..4 symbolic, molalities any positive reals" % n,
               sample={"molalities": "symbolic", "charges": "symbolic ints", "oracle": "warned => net != 0; not warned => |net| <= 1e-12*sum(b z^2)"})
    for p, m, g in o.failed[:1]:
        res["violations"].append(dict(key="ionic_strength_warn:%s" % p.kind, desc="b=%s z=%s -> %r" % (concretize(m, b), concretize(m, z), p.value),
                                      replay_src=REPLAY_WARN % dict(b=pyrepr(concretize(m, b)), z=pyrepr(concretize(m, z)))))
    res["status"] = "violation" if res["violations"] else ("inconclusive" if res["inconclusive"] else "discharged")
    return res


REPLAY_WARN_ARR = '''
import warnings
import numpy as np
from chempy.electrolytes import ionic_strength
b = %(b)s
z = %(z)s
with warnings.catch_warnings(record=True) as w:
    warnings.simplefilter("always")
    I = ionic_strength([np.array(col, dtype=object) for col in b], z)
warned = any("charge neutral" in str(x.message) for x in w)
nets = [sum(col[s_] * zi for col, zi in zip(b, z)) for s_ in range(2)]
tots = [sum(col[s_] * zi * zi for col, zi in zip(b, z)) for s_ in range(2)]
print("b", b, "z", z, "nets", nets, "warned", warned)
bad = (all(n_ == 0 for n_ in nets) and warned) or (any(abs(n_) > t_ * Fraction(1, 10**12) for n_, t_ in zip(nets, tots)) and not warned)
bad = bad or any(I[s_] != tots[s_] / 2 for s_ in range(2))
sys.exit(1 if bad else 0)
'''


def task_warn_arrays(n):
    """array-valued molalities (one array per ion, one entry per solution): the warning is issued iff SOME solution is not neutral"""
    import numpy as np
    from chempy.electrolytes import ionic_strength

    b = [[Real("b%d_%d" % (i, s_)) for s_ in range(2)] for i in range(n)]
    z = [Int("z%d" % i) for i in range(n)]
    flat = [v for col in b for v in col]
    assum = [x.t >= 0 for x in flat] + [x.t >= -4 for x in z] + [x.t <= 4 for x in z]

    def fn():
        with warnings.catch_warnings(record=True) as w:
            warnings.simplefilter("always")
            val = ionic_strength([np.array(col, dtype=object) for col in b], list(z))
        return val, any("charge neutral" in str(x.message) for x in w)

    nets = [sum(col[s_] * zi for col, zi in zip(b, z)) for s_ in range(2)]
    tots = [sum(col[s_] * zi * zi for col, zi in zip(b, z)) for s_ in range(2)]

    def goal(p, twin=False):
        if p.kind == "exc":
            return False
        val, warned = p.value
        if twin:
            return z3.BoolVal(not warned)
        c = [eq_term(val[s_], tots[s_] / 2) for s_ in range(2)]
        absn = [z3.If(lift(nt) >= 0, lift(nt), -lift(nt)) for nt in nets]
        if warned:
            c.append(z3.Or(*[lift(nt) != 0 for nt in nets]))
        else:
            c.append(z3.And(*[a_ <= z3.Q(1, 10 ** 12) * lift(t_) for a_, t_ in zip(absn, tots)]))
        return z3.And(*c)

    o = explore_and_prove(fn, assum, goal)
    ot = explore_and_prove(fn, assum, lambda p: goal(p, True), max_fail=1)
    res = dict(engine="Z", functions=[env.describe(ionic_strength)], obligations=o.obligations, discharged=o.discharged, violations=[],
               inconclusive=list(o.inconclusive), queries=o.queries, paths=o.paths, solver_s=o.solver_s, twin=twin_verdict(ot),
               bounds="%d ions x 2 solutions (object arrays), charges -4..4 symbolic, molalities >= 0" % n,
               sample={"molalities": "one symbolic array per ion", "oracle": "warned => some solution has net != 0; not warned => every |net| <= 1e-12*sum(b z^2)"})
    for p, m, g in o.failed[:1]:
        res["violations"].append(dict(key="ionic_strength_warn_arrays:%s" % p.kind, desc="b=%s z=%s -> %r" % ([concretize(m, col) for col in b], concretize(m, z), p.value),
                                      replay_src=REPLAY_WARN_ARR % dict(b=pyrepr([concretize(m, col) for col in b]), z=pyrepr(concretize(m, z)))))
    res["status"] = "violation" if res["violations"] else ("inconclusive" if res["inconclusive"] else "discharged")
    return res


def tasks(tier, seed):
    ts = []
    for c in CASES:
        if c.get("custom") == "ratio":
            ts.append(dict(id="C18.%s" % c["name"], fn="task_ratio", kwargs=dict(casename=c["name"]), timeout=600))
        else:
            ts.append(dict(id="C18.%s" % c["name"], fn="task_case", kwargs=dict(casename=c["name"]), timeout=600))
    for n in ([1, 2, 3] if tier == "quick" else [1, 2, 3, 4]):
        ts.append(dict(id="C18.neutrality_warning.%d" % n, fn="task_warn", kwargs=dict(n=n), timeout=600))
    ts.append(dict(id="C18.neutrality_warning.arrays", fn="task_warn_arrays", kwargs=dict(n=2), timeout=600))
    return ts
