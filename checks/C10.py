"""C10 - (claimed part) dimension bookkeeping of the unit-aware kinetics (Engine Z).

Claimed: the exponent vectors returned by args_dimensionality for every reaction order (symbolic), get_derived_unit in every
base-unit registry (registry entries are free positive reals), and the parameter units (extra['p_units']) that get_odesys reports for
free parameters in such a registry.  NOT applicable: acceptance iff of unit-carrying rate constants (check_consistent_units) and
registry independence of f_cb / integrate - both execute `quantities` arithmetic on floats.
"""
import time

import z3

from vlib import env
from vlib.zrun import explore_and_prove, eq_term, wrapper_exc
from vlib.zsym import Real, Int, SymNum, lift, model_value

META = {
    "level": "other",
    "explanation": "bounded symbolic verification (Engine Z) of the dimension bookkeeping: args_dimensionality of MassAction/Arrhenius/Eyring "
                   "with a symbolic reaction order, get_derived_unit and extra['p_units'] of get_odesys with a registry whose base units "
                   "are free positive reals - each proved equal to product(base^exponent) with exponents from the SI definitions, for ALL "
                   "registries and orders",
    "bounds": {"quick": "order any integer (symbolic) for args_dimensionality; orders 0..3 for get_odesys builds; all positive base-unit scales",
               "thorough": "same"},
    "assumptions": ["acceptance iff of unit-carrying constants and registry independence of the numeric right-hand side run inside the "
                    "`quantities` package on floats: not applicable"],
    "outside": ["Reaction.check_consistent_units acceptance", "f_cb / integrate with quantities", "output rescaling"],
    "trusted_base": ["z3 5.1", "vlib/zsym.py"],
}

BASES = "length mass time current temperature amount".split()
SI = {  # exponents (length, mass, time, current, temperature, amount)
    "diffusivity": (2, 0, -1, 0, 0, 0), "diffusion": (2, 0, -1, 0, 0, 0), "electrical_mobility": (0, -1, 2, 1, 0, 0),
    "permittivity": (-3, -1, 4, 2, 0, 0), "charge": (0, 0, 1, 1, 0, 0), "energy": (2, 1, -2, 0, 0, 0), "concentration": (-3, 0, 0, 0, 0, 1),
    "density": (-3, 1, 0, 0, 0, 0), "radiolytic_yield": (-2, -1, 2, 0, 0, 1), "doserate": (2, 0, -3, 0, 0, 0),
    "linear_energy_transfer": (1, 1, -2, 0, 0, 0), "length": (1, 0, 0, 0, 0, 0), "mass": (0, 1, 0, 0, 0, 0), "time": (0, 0, 1, 0, 0, 0),
    "current": (0, 0, 0, 1, 0, 0), "temperature": (0, 0, 0, 0, 1, 0), "amount": (0, 0, 0, 0, 0, 1),
}


def sym_registry():
    reg = {k: Real("u_" + k) for k in BASES + ["luminous_intensity"]}
    return reg, [v.t > 0 for v in reg.values()]


def monomial(reg, exps):
    r = 1
    for b, e in zip(BASES, exps):
        if e > 0:
            r = r * reg[b] ** e
        elif e < 0:
            r = r / reg[b] ** (-e)
    return r


def task_derived():
    from chempy.units import get_derived_unit

    reg, assum = sym_registry()
    ob = di = q = 0
    viol = []
    for key, exps in SI.items():
        ob += 1
        got = get_derived_unit(reg, key)
        s = z3.Solver()
        s.set("timeout", 20000)
        s.add(*assum)
        s.add(z3.Not(eq_term(got, monomial(reg, exps))))
        r = str(s.check())
        q += 1
        if r == "unsat":
            di += 1
        else:
            viol.append(dict(key="derived:%s" % key, desc="get_derived_unit(reg, %r) is not product(base^%s)" % (key, exps), replay_src='''
from chempy.units import get_derived_unit
reg = dict(length=2.0, mass=3.0, time=5.0, current=7.0, temperature=11.0, luminous_intensity=13.0, amount=17.0)
exps = %r
exp = 1.0
for b, e in zip(%r, exps): exp *= reg[b] ** e
got = get_derived_unit(reg, %r)
print(got, exp)
sys.exit(0 if abs(got / exp - 1) < 1e-12 else 1)
''' % (exps, BASES, key)))
    # history: the same registry dict is edited in place (a scan over base units) - derived units must follow
    reg["length"] = Real("u_length2")
    reg["time"] = Real("u_time2")
    assum += [reg["length"].t > 0, reg["time"].t > 0]
    for key in ("concentration", "energy", "diffusivity", "density", "doserate", "radiolytic_yield"):
        ob += 1
        s = z3.Solver()
        s.set("timeout", 20000)
        s.add(*assum)
        s.add(z3.Not(eq_term(get_derived_unit(reg, key), monomial(reg, SI[key]))))
        q += 1
        if str(s.check()) == "unsat":
            di += 1
        else:
            viol.append(dict(key="derived:stale:%s" % key, desc="get_derived_unit(reg, %r) does not follow an in-place change of the registry" % key, replay_src='''
from chempy.units import get_derived_unit
reg = dict(length=2.0, mass=3.0, time=5.0, current=7.0, temperature=11.0, luminous_intensity=13.0, amount=17.0)
first = get_derived_unit(reg, "concentration")
reg["length"] = 4.0
second = get_derived_unit(reg, "concentration")
print(first, second)
sys.exit(0 if abs(second / (17.0 / 4.0 ** 3) - 1) < 1e-12 else 1)
'''))
    s = z3.Solver()
    s.add(*assum)
    s.add(z3.Not(eq_term(get_derived_unit(reg, "energy"), monomial(reg, (2, 1, -1, 0, 0, 0)))))
    return dict(engine="Z", functions=[env.describe(get_derived_unit)], obligations=ob, discharged=di, violations=viol, queries=q,
                twin="violated" if str(s.check()) == "sat" else "passed", bounds="every key, all positive base-unit scales",
                status="violation" if viol else "discharged", sample={"key": "permittivity", "oracle exponents (L,M,T,I,Theta,N)": SI["permittivity"]})


def task_args_dim():
    from chempy.kinetics.rates import MassAction, Arrhenius, Eyring, EyringHS, Radiolytic, RampedTemp

    order = Int("order")

    class R(object):
        def order(self):
            return order

    exp = {
        "MassAction": [dict(time=-1, amount=1 - order, length=3 * (order - 1))],
        "Arrhenius": [dict(time=-1, amount=1 - order, length=3 * (order - 1)), dict(temperature=1)],
        "Eyring": [dict(time=-1, temperature=-1, amount=1 - order, length=3 * (order - 1)), dict(temperature=1), dict(amount=1, length=-3)],
    }
    ob = di = q = 0
    viol = []
    REPLAY_AD = '''
from chempy import Reaction
from chempy.kinetics.rates import MassAction, Arrhenius, Eyring
bad = False
for n, rx in ((0, Reaction({}, {"B": 1})), (1, Reaction({"A": 1}, {"B": 1})), (2, Reaction({"A": 2}, {"B": 1})), (3, Reaction({"A": 2, "B": 1}, {"C": 1}))):
    # every class is asked before and after every other one (a result must not depend on what was asked earlier)
    for cls, nargs in ((MassAction, 1), (Arrhenius, 2), (Eyring, 3), (MassAction, 1), (Arrhenius, 2), (Eyring, 3)):
        d = dict(cls([1] * nargs).args_dimensionality(reaction=rx)[0])
        exp = dict(time=-1, amount=1 - n, length=3 * (n - 1))
        if cls is Eyring: exp["temperature"] = -1
        if {k: v for k, v in d.items() if v} != {k: v for k, v in exp.items() if v}: print(cls.__name__, n, d); bad = True
sys.exit(1 if bad else 0)
'''
    SEQ = (("MassAction", MassAction), ("Arrhenius", Arrhenius), ("Eyring", Eyring), ("MassAction", MassAction), ("Arrhenius", Arrhenius),
           ("Eyring", Eyring))

    def conds_of(name, got):
        if len(got) != len(exp[name]):
            return [z3.BoolVal(False)]
        out = []
        for g, e in zip(got, exp[name]):
            g = dict(g)
            out.append(z3.And(*([eq_term(g.get(b, 0), e.get(b, 0)) for b in BASES] + [z3.BoolVal(set(g) <= set(BASES))])))
        return out

    try:
        # fast path: straight-line code, `order` stays an unbounded symbolic integer
        gots = [(name, cls([1] * len(exp[name])).args_dimensionality(reaction=R())) for name, cls in SEQ]
    except Exception:
        gots = None
    bounds = "reaction order: any integer (symbolic)"
    if gots is not None:
        for k, (name, got) in enumerate(gots):
            for i, c in enumerate(conds_of(name, got)):
                ob += 1
                s = z3.Solver()
                s.add(z3.Not(c))
                q += 1
                if str(s.check()) == "unsat":
                    di += 1
                elif not any(v["key"] == "args_dim:%s:%d" % (name, i) for v in viol):
                    viol.append(dict(key="args_dim:%s:%d" % (name, i), desc="%s.args_dimensionality()[%d] = %s (call %d of the sequence)" % (name, i, dict(got[i]) if i < len(got) else None, k),
                                     replay_src=REPLAY_AD))
    else:
        # fallback (the implementation hashes / branches on the order): explored with the order decided by solver forks in 0..4
        from vlib.zrun import explore_and_prove

        def fn():
            return [(name, cls([1] * len(exp[name])).args_dimensionality(reaction=R())) for name, cls in SEQ]

        def goal(p):
            if p.kind == "exc":
                return False
            return z3.And(*[c for name, got in p.value for c in conds_of(name, got)])

        o = explore_and_prove(fn, [order.t >= 0, order.t <= 4], goal, max_paths=200, deadline_s=120)
        ob += o.obligations
        di += o.discharged
        q += o.queries
        bounds = "reaction order 0..4 (forking fallback)"
        for p, m, g in o.failed[:1]:
            viol.append(dict(key="args_dim:sequence", soft=(p.kind == "exc" and wrapper_exc(p.value)),
                             desc="args_dimensionality sequence at order %s -> %r" % (model_value(m, order.t) if m is not None else "?", p.value), replay_src=REPLAY_AD))
    extra = [(EyringHS([1, 1, 1]).args_dimensionality(), [dict(mass=1, length=2, time=-2, amount=-1), dict(mass=1, length=2, time=-2, amount=-1, temperature=-1),
                                                          dict(amount=1, length=-3)]),
             (RampedTemp([1, 1]).args_dimensionality(), [dict(temperature=1), dict(temperature=1, time=-1)])]
    for got, e in extra:
        ob += 1
        if [{k: v for k, v in dict(g).items() if v} for g in got] == e:
            di += 1
        else:
            viol.append(dict(key="args_dim:fixed", desc="fixed args_dimensionality %s != %s" % (got, e), replay_src="sys.exit(1)\n"))
    return dict(engine="Z", functions=[env.describe(MassAction.args_dimensionality), env.describe(Arrhenius.args_dimensionality),
                                       env.describe(Eyring.args_dimensionality)], obligations=ob, discharged=di, violations=viol, queries=q,
                twin="n/a", bounds=bounds, status="violation" if viol else "discharged",
                sample={"class": "Arrhenius", "order": "symbolic", "oracle": "concentration^(1-order)/time, temperature"})


REPLAY_PU = '''
from chempy import Reaction, ReactionSystem
from chempy.kinetics.ode import get_odesys
from chempy.kinetics.rates import MassAction, Arrhenius
reg = dict(length=2.0, mass=3.0, time=5.0, current=7.0, temperature=11.0, luminous_intensity=13.0, amount=17.0)
bad = False
for n, reac in ((1, {"A": 1}), (2, {"A": 2}), (2, {"A": 1, "B": 1}), (3, {"A": 2, "B": 1})):
    rsys = ReactionSystem([Reaction(reac, {"C": 1}, MassAction(Arrhenius([3, 500], unique_keys=("A1", "E1"))))], sorted(set(reac) | {"C"}))
    odesys, extra = get_odesys(rsys, include_params=False, unit_registry=reg)
    pu = dict(zip(odesys.param_names, extra["p_units"]))
    exp = reg["amount"] ** (1 - n) * reg["length"] ** (3 * (n - 1)) / reg["time"]
    if abs(pu["A1"] / exp - 1) > 1e-12 or abs(pu["E1"] / reg["temperature"] - 1) > 1e-12 or abs(pu["temperature"] / reg["temperature"] - 1) > 1e-12:
        print("order", n, pu, exp); bad = True
sys.exit(1 if bad else 0)
'''


REPLAY_RHS = '''
import sympy
from chempy import Reaction, ReactionSystem
from chempy.kinetics.ode import get_odesys
from chempy.kinetics.rates import MassAction
from chempy.units import SI_base_registry
MA = lambda key: MassAction([3.0], unique_keys=(key,))
systems = [
    [({"A": 1}, {"B": 1}, MA("k1")), ({"B": 1, "C": 1}, {"A": 1}, "k2")],
    [({"A": 2}, {"C": 1}, "k1"), ({"C": 1}, {"A": 1, "B": 1}, MA("k2")), ({"A": 1, "B": 1}, {"C": 1}, "k3")],
    [({"A": 1}, {"B": 1}, "k1"), ({"B": 2}, {"C": 1}, "k2"), ({"C": 1}, {"A": 2}, MA("k3"))],
    [({"A": 1}, {"B": 1}, "k1"), ({"B": 1}, {"A": 1}, "k1"), ({"A": 1, "B": 1}, {"C": 1}, "k2")],
    [({}, {"A": 1}, "k1"), ({"A": 1}, {"B": 1}, "k2"), ({"B": 2}, {"C": 1}, MA("k3"))],
]
spec = systems[%(si)d]
rsys = ReactionSystem([Reaction(dict(r_), dict(p_), par) for r_, p_, par in spec], "A B C")
odesys, extra = get_odesys(rsys, include_params=False, unit_registry=SI_base_registry)
P = dict(zip(odesys.param_names, odesys.params)); Y = dict(zip(odesys.names, odesys.dep))
pname = [par if isinstance(par, str) else par.unique_keys[0] for r_, p_, par in spec]
bad = []
from chempy.units import get_derived_unit, to_unitless, unit_of
if len(extra["p_units"]) != len(odesys.param_names): bad.append("p_units has %%d entries for %%d parameters" %% (len(extra["p_units"]), len(odesys.param_names)))
conc_u, time_u = get_derived_unit(SI_base_registry, "concentration"), get_derived_unit(SI_base_registry, "time")
for i, (r_, p_, par) in enumerate(spec):
    pu = dict(zip(odesys.param_names, extra["p_units"])).get(pname[i])
    try:
        to_unitless(1 * pu, conc_u ** (1 - sum(r_.values())) / time_u)
    except Exception as e:
        bad.append("unit reported for %%s is %%s: not concentration^(1-%%d)/time" %% (pname[i], pu, sum(r_.values())))
for key in "ABC":
    tot = 0
    for i, (r_, p_, par) in enumerate(spec):
        rate = P[pname[i]]
        for sk, nu in r_.items(): rate = rate * Y[sk] ** nu
        tot = tot + (p_.get(key, 0) - r_.get(key, 0)) * rate
    got = odesys.exprs[list(odesys.names).index(key)]
    if sympy.expand(got - tot) != 0: bad.append("d[%%s]/dt = %%s, N^T r = %%s" %% (key, got, tot))
for b in bad: print("MISMATCH", b)
sys.exit(1 if bad else 0)
'''


def task_p_units():
    from chempy import Reaction, ReactionSystem
    from chempy.kinetics.ode import get_odesys
    from chempy.kinetics.rates import MassAction, Arrhenius, Eyring

    reg, assum = sym_registry()
    ob = di = q = 0
    viol = []
    for n, reac in ((1, {"A": 1}), (2, {"A": 2}), (2, {"A": 1, "B": 1}), (3, {"A": 2, "B": 1})):
        keys = sorted(set(reac) | {"C"})
        for kind in ("massaction", "arrhenius"):  # Eyring: its default conc0 is a real quantity -> not carried by the symbolic registry
            if kind == "massaction":
                p = MassAction([3], unique_keys=("k1",))
                expect = {"k1": (3 * (n - 1), 0, -1, 0, 0, 1 - n)}
            elif kind == "arrhenius":
                p = MassAction(Arrhenius([3, 500], unique_keys=("A1", "E1")))
                expect = {"A1": (3 * (n - 1), 0, -1, 0, 0, 1 - n), "E1": (0, 0, 0, 0, 1, 0), "temperature": (0, 0, 0, 0, 1, 0)}
            else:
                p = MassAction(Eyring([3, 500, 1], unique_keys=("c0", "c1")))
                expect = {"c0": (3 * (n - 1), 0, -1, 0, -1, 1 - n), "c1": (0, 0, 0, 0, 1, 0), "temperature": (0, 0, 0, 0, 1, 0)}
            ob += 1
            try:
                rsys = ReactionSystem([Reaction(dict(reac), {"C": 1}, p)], keys)
                odesys, extra = get_odesys(rsys, include_params=False, unit_registry=reg)
                pu = dict(zip(odesys.param_names, extra["p_units"]))
                conds = [z3.BoolVal(set(pu) == set(expect))] + [eq_term(pu[k], monomial(reg, e)) for k, e in expect.items() if k in pu]
                s = z3.Solver()
                s.set("timeout", 20000)
                s.add(*assum)
                s.add(z3.Not(z3.And(*conds)))
                r = str(s.check())
                q += 1
            except Exception as e:
                r = "exc %r" % (e,)
            if r == "unsat":
                di += 1
            else:
                viol.append(dict(key="p_units:%s:%d" % (kind, n), desc="order %d %s: p_units mismatch (%s)" % (n, kind, r), replay_src=REPLAY_PU,
                                 soft=(kind != "arrhenius")))
    # systems mixing unique-key expressions and plain NAMED parameters, built with a registry: the right-hand side over the parameter symbols
    # is N^T r with r_i = (its own parameter) * prod c^nu, and every parameter's unit is concentration^(1-order)/time
    from vlib.s2z import Conv

    def MA(key):
        return MassAction([3], unique_keys=(key,))

    systems = [
        [({"A": 1}, {"B": 1}, MA("k1")), ({"B": 1, "C": 1}, {"A": 1}, "k2")],
        [({"A": 2}, {"C": 1}, "k1"), ({"C": 1}, {"A": 1, "B": 1}, MA("k2")), ({"A": 1, "B": 1}, {"C": 1}, "k3")],
        [({"A": 1}, {"B": 1}, "k1"), ({"B": 2}, {"C": 1}, "k2"), ({"C": 1}, {"A": 2}, MA("k3"))],
        # the SAME named constant on two reactions, followed by one of another dimension; and a zero-order source term
        [({"A": 1}, {"B": 1}, "k1"), ({"B": 1}, {"A": 1}, "k1"), ({"A": 1, "B": 1}, {"C": 1}, "k2")],
        [({}, {"A": 1}, "k1"), ({"A": 1}, {"B": 1}, "k2"), ({"B": 2}, {"C": 1}, MA("k3"))],
    ]
    for si, spec in enumerate(systems):
        ob += 1
        try:
            rsys = ReactionSystem([Reaction(dict(r_), dict(p_), par) for r_, p_, par in spec], "A B C")
            odesys, extra = get_odesys(rsys, include_params=False, unit_registry=reg)
            P = dict(zip(odesys.param_names, odesys.params))
            Y = dict(zip(odesys.names, odesys.dep))
            conv = Conv()
            pname = [par if isinstance(par, str) else par.unique_keys[0] for r_, p_, par in spec]
            uniq = [n_ for i_, n_ in enumerate(pname) if n_ not in pname[:i_]]
            conds = [z3.BoolVal(list(odesys.param_names) == uniq and len(extra["p_units"]) == len(uniq))]
            for key in "ABC":
                tot = 0
                for i, (r_, p_, par) in enumerate(spec):
                    rate = P[pname[i]]
                    for sk, nu in r_.items():
                        rate = rate * Y[sk] ** nu
                    tot = tot + (p_.get(key, 0) - r_.get(key, 0)) * rate
                conds.append(conv(odesys.exprs[list(odesys.names).index(key)]) == conv(tot))
            pu = dict(zip(odesys.param_names, extra["p_units"]))
            for i, (r_, p_, par) in enumerate(spec):
                n_ = sum(r_.values())
                conds.append(eq_term(pu[pname[i]], monomial(reg, (3 * (n_ - 1), 0, -1, 0, 0, 1 - n_))))
            sv = z3.Solver()
            sv.set("timeout", 20000)
            sv.add(*assum)
            sv.add(z3.Not(z3.And(*conds)))
            r = str(sv.check())
            q += 1
        except Exception as e:
            r = "exc %r" % (e,)
        if r == "unsat":
            di += 1
        else:
            viol.append(dict(key="registry_rhs:%d" % si, desc="system %d with a unit registry: right-hand side / parameter units mismatch (%s)" % (si, r),
                             replay_src=REPLAY_RHS % dict(si=si), soft=True))
    return dict(engine="Z", functions=[env.describe(get_odesys)], obligations=ob, discharged=di, violations=viol, queries=q, twin="n/a",
                bounds="orders 1..3, MassAction/Arrhenius/Eyring with unique keys, all positive base-unit scales",
                status="violation" if viol else "discharged", sample={"reaction": "2 A + B -> C", "param": "MassAction(Arrhenius(unique_keys=('A1','E1')))"})


def tasks(tier, seed):
    return [dict(id="C10.derived_units", fn="task_derived", kwargs={}, timeout=300),
            dict(id="C10.args_dimensionality", fn="task_args_dim", kwargs={}, timeout=300),
            dict(id="C10.p_units", fn="task_p_units", kwargs={}, timeout=600)]
