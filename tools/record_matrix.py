#!/usr/bin/env python3
"""Reads a matrix.tsv produced by tools/matrix.sh and (a) records the observed detection in seeded/<id>/meta.json,
(b) writes seeded/MATRIX.md (all seeded + hand-written changes)."""
import json, os, sys
rows = [l.rstrip("\n").split("\t") for l in open(sys.argv[1]) if l.strip()]
out = ["# Seeded / hand-written changes vs. the quick checks", "",
       "Produced by `tools/matrix.sh` (each patch applied in a scratch worktree of /repo, existing suite run, then the property's quick",
       "check with VERIF_REPO pointing at the worktree). `CAUGHT` = the check printed VIOLATION with a replay that reproduces.", "",
       "| change | property | existing suite | quick check |", "|---|---|---|---|"]
for r in rows:
    name, prop, suite, verdict = (r + ["?"] * 4)[:4]
    seed = name.split("__")[0]
    out.append("| %s | %s | %s | %s |" % (seed, prop, suite.replace("suite-", ""), verdict))
    d = "/verif/seeded/%s" % seed
    if os.path.isdir(d):
        m = json.load(open(d + "/meta.json"))
        m["detected_by_quick_check"] = verdict
        m["detected_by"] = "./check %s --tier quick: %s (tools/matrix.sh run; see DESIGN.md section 12 for the explanation)" % (prop, verdict)
        json.dump(m, open(d + "/meta.json", "w"), indent=1)
open("/verif/seeded/MATRIX.md", "w").write("\n".join(out) + "\n")
print(len(rows), "rows")
