"""Engine X: run CrossHair (symbolic execution of Python with z3) on contract harnesses that call the real API.

Every harness is a module-level function returning bool with a PEP316 docstring (`pre:` lines and `post: _`).
Verdicts: "Confirmed over all paths" = discharged; a counterexample = candidate violation (replayed by calling the
harness concretely); anything else (Not confirmed / Unable to meet precondition / timeout) = inconclusive.
For every harness a reachability twin (same pre, `post: not _`) must produce a counterexample.
"""
import ast
import os
import re
import subprocess
import sys
import time
import concurrent.futures as cf

from . import env

CX_TMP = os.path.join(env.VERIF, ".cxtmp")


def _harnesses(path):
    src = open(os.path.join(env.VERIF, path)).read()
    tree = ast.parse(src)
    out = []
    for node in tree.body:
        if isinstance(node, ast.FunctionDef) and node.name.startswith("_h_"):
            doc = ast.get_docstring(node) or ""
            pres = [l.strip() for l in doc.splitlines() if l.strip().startswith("pre:")]
            args = ast.unparse(node.args)
            names = [a.arg for a in node.args.args]
            out.append(dict(name=node.name, line=node.lineno + 1, pres=pres, args=args, argnames=names))
    return out


def _run_cx(target, timeout, per_path=None):
    e = dict(os.environ)
    e["PYTHONPATH"] = env.REPO + os.pathsep + env.VERIF
    e["PYTHONHASHSEED"] = "0"
    cmd = [sys.executable, "-m", "crosshair", "check", "--report_all", "--per_condition_timeout", str(timeout)]
    if per_path:
        cmd += ["--per_path_timeout", str(per_path)]
    cmd.append(target)
    t0 = time.time()
    try:
        r = subprocess.run(cmd, env=e, capture_output=True, text=True, timeout=timeout * 1.5 + 60, cwd=env.VERIF)
        out = r.stdout + r.stderr
    except subprocess.TimeoutExpired as ex:
        out = "TIMEOUT " + str(ex)
    return out, time.time() - t0


def _classify(out):
    if "Confirmed over all paths" in out:
        return "confirmed", None
    m = re.search(r"error: (.*)", out)
    if m:
        return "counterexample", m.group(1)
    if "Not confirmed" in out:
        return "not_confirmed", None
    if "Unable to meet precondition" in out:
        return "no_precondition", None
    return "unknown", out[-300:]


REPLAY = '''
sys.path.insert(0, "/verif")
import importlib
mod = importlib.import_module(%(mod)r)
call = %(call)r
try:
    ok = eval(call, mod.__dict__)
except Exception as e:
    print("harness raised", type(e).__name__, e); ok = False
print(call, "->", ok)
sys.exit(0 if ok else 1)
'''


def run_harness(path, timeout=120, functions=(), replay_note="", only=None, twin_timeout=150):
    hs = _harnesses(path)
    if only:
        hs = [h for h in hs if only == h["name"] or (only.endswith("*") and h["name"].startswith(only[:-1]))]
    os.makedirs(CX_TMP, exist_ok=True)
    modname = path[:-3].replace("/", ".")
    res = dict(engine="X", functions=list(functions), obligations=len(hs), discharged=0, violations=[], inconclusive=[],
               queries=0, solver_s=0.0, bounds="CrossHair per_condition_timeout=%ss; harness preconditions in %s" % (timeout, path))
    twin_ok = True

    def one(h):
        out, dt = _run_cx("%s:%d" % (os.path.join(env.VERIF, path), h["line"]), timeout)
        kind, detail = _classify(out)
        # twin
        tpath = os.path.join(CX_TMP, "twin_%s_%s.py" % (modname.replace(".", "_"), h["name"]))
        with open(tpath, "w") as fh:
            fh.write("import %s as _m\nglobals().update({k: v for k, v in vars(_m).items() if not k.startswith('__')})\nfrom %s import %s\n\n\ndef twin(%s) -> bool:\n    \"\"\"\n%s\n    post: not _\n    \"\"\"\n    return %s(%s)\n" % (
                modname, modname, h["name"], h["args"], "\n".join("    " + p for p in h["pres"]), h["name"], ", ".join(h["argnames"])))
        tout, tdt = _run_cx(tpath, twin_timeout)
        tkind, _ = _classify(tout)
        return h, kind, detail, dt, tkind, tdt

    with cf.ThreadPoolExecutor(max_workers=min(8, max(1, len(hs)))) as ex:
        results = list(ex.map(one, hs))
    samples = []
    for h, kind, detail, dt, tkind, tdt in results:
        res["solver_s"] += dt
        res["queries"] += 1
        samples.append({"harness": h["name"], "pre": h["pres"], "verdict": kind, "s": round(dt, 1)})
        if tkind != "counterexample":
            twin_ok = False
            res["inconclusive"].append("%s: reachability twin gave %s" % (h["name"], tkind))
        if kind == "confirmed":
            res["discharged"] += 1
        elif kind == "counterexample":
            m = re.search(r"when calling (.*?)(?: \(which |$)", detail or "")
            call = m.group(1).strip() if m else None
            if call is None:
                res["inconclusive"].append("%s: counterexample without call text: %s" % (h["name"], detail))
                continue
            # CrossHair's string/regex models can deviate from CPython: a counterexample that does not replay is inconclusive
            res["violations"].append(dict(key="%s:%s" % (modname, h["name"]), soft=True, desc="%s: %s" % (replay_note, detail),
                                          replay_src=REPLAY % dict(mod=modname, call=call)))
        else:
            res["inconclusive"].append("%s: CrossHair %s %s" % (h["name"], kind, detail or ""))
    res["twin"] = "violated" if twin_ok else "unknown"
    res["sample"] = samples[:4]
    res["status"] = "violation" if res["violations"] else ("inconclusive" if res["inconclusive"] else "discharged")
    return res
