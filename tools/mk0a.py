#!/usr/bin/env python3
"""Refresh the 'obligations' and 'wall' columns of DESIGN.md section 0a from evidence/*.json (numbers only; the prose stays)."""
import json
import os
import re

HERE = os.path.dirname(os.path.dirname(os.path.abspath(__file__)))
p = os.path.join(HERE, "DESIGN.md")
s = open(p).read()
a = s.index("## 0a.")
b = s.index("## 0b.")
sec = s[a:b]
out = []
for line in sec.split("\n"):
    m = re.match(r"^\| (C\d\d) \| ([^|]*) \| ([^|]*) \| ([^|]*) \| (.*)\|\s*$", line)
    if m:
        cid = m.group(1)
        try:
            ev = json.load(open(os.path.join(HERE, "evidence", cid + ".json")))
            if ev.get("tier") == "quick":
                ob = ev["coverage"]["obligations"]
                wall = ev["wall_s"]
                line = "| %s | %s | %s | %s | %s|" % (cid, m.group(2), ob, "%d s" % round(wall), m.group(5))
        except Exception:
            pass
    out.append(line)
s = s[:a] + "\n".join(out) + s[b:]
open(p, "w").write(s)
print("section 0a refreshed")
