"""C20 - (claimed part) printed numbers denote the value they were given: roman numerals, power-of-ten renderers, split logic."""
import time

import z3

from vlib import env, cxrun
from vlib.zsym import Int, SegStr, SymNum, lift, model_value

META = {
    "level": "other",
    "explanation": "bounded symbolic verification: roman(n) is executed on a symbolic integer (string repetition by a symbolic count is a "
                   "symbolic segment) and ONE z3 query proves, for all 1 <= n <= 3999, that the token values sum to n and the token counts "
                   "are the canonical ones; the LaTeX/Unicode/HTML power-of-ten renderers and the significand/exponent split of "
                   "_number_to_X are confirmed by CrossHair for every exponent -300..300 and a set of significand spellings (incl. '1', "
                   "'1.0', negative ones)",
    "bounds": {"quick": "roman: 1..3999; renderers: exponent -300..300 symbolic x 9 significand strings", "thorough": "same, longer CrossHair budget"},
    "assumptions": [
        "what '%.Ng' and _float_str_w_uncert print for a float (C formatting, log10/floor/round on floats): not applicable - no symbolic float "
        "survives '%'",
        "unit rendering (html_of_unit ...) uses the `quantities` package: outside",
    ],
    "outside": ["%g digit generation", "_float_str_w_uncert", "unit strings", "Reaction param strings with quantities"],
    "trusted_base": ["z3 5.1", "CrossHair 0.0.110", "vlib/zsym.py"],
}


def task_roman():
    from chempy.printing.numbers import roman

    n = Int("n")
    try:
        r = roman(n)  # fast path: straight-line code, "M" * count stays a symbolic segment string, ONE query decides 1..3999
    except Exception:
        r = None      # e.g. the code joins the pieces with str.join, branches on a count, ...: decided by the forking fallback below
    res = dict(engine="Z", functions=[env.describe(roman)], obligations=1, discharged=0, violations=[], queries=2, bounds="all n in 1..3999",
               sample={"n": "symbolic 1..3999", "oracle": "sum(value*count) = n and canonical digit-wise counts"})
    tokens = "M CM D CD C XC L XL X IX V IV I".split()
    values = dict(zip(tokens, (1000, 900, 500, 400, 100, 90, 50, 40, 10, 9, 5, 4, 1)))
    ok_struct = isinstance(r, SegStr) and [t for t, c in r.segs] == tokens
    t0 = time.time()
    if ok_struct:
        cnt = {t: lift(c) for t, c in r.segs}
        nt = n.t
        d3, d2, d1, d0 = nt / 1000, (nt / 100) % 10, (nt / 10) % 10, nt % 10

        def digit(d, nine, five, four, one):
            return [cnt[nine] == z3.If(d == 9, 1, 0), cnt[five] == z3.If(z3.And(d >= 5, d <= 8), 1, 0), cnt[four] == z3.If(d == 4, 1, 0),
                    cnt[one] == z3.If(z3.Or(d == 4, d == 9), 0, d % 5)]
        spec = [cnt["M"] == d3] + digit(d2, "CM", "D", "CD", "C") + digit(d1, "XC", "L", "XL", "X") + digit(d0, "IX", "V", "IV", "I")
        spec.append(z3.Sum([values[t] * cnt[t] for t in tokens]) == nt)
        s = z3.Solver()
        s.set("timeout", 120000)
        s.add(nt >= 1, nt <= 3999)
        s.add(z3.Not(z3.And(*spec)))
        v = str(s.check())
        s2 = z3.Solver()
        s2.add(nt >= 1, nt <= 3999, z3.Not(cnt["I"] <= 2))
        res["twin"] = "violated" if str(s2.check()) == "sat" else "passed"
    else:
        # fallback (any implementation): explore the real function with `str * count` decided by solver forks; on every path the
        # concrete result is parsed into canonical token counts and z3 proves they are the digit-wise counts of EVERY n on that path
        from vlib.zrun import explore_and_prove, twin_verdict

        def parse(sv):
            counts, rest = {}, sv
            for t in tokens:
                c = 0
                while rest.startswith(t) and (len(t) == 2 or not any(rest.startswith(t2) for t2 in tokens if len(t2) == 2 and t2[0] == t)):
                    rest = rest[len(t):]
                    c += 1
                counts[t] = c
            return counts if rest == "" and "".join(t * counts[t] for t in tokens) == sv else None

        nt = n.t
        d3, d2, d1, d0 = nt / 1000, (nt / 100) % 10, (nt / 10) % 10, nt % 10

        def digit_(cnt, d, nine, five, four, one):
            return [cnt[nine] == z3.If(d == 9, 1, 0), cnt[five] == z3.If(z3.And(d >= 5, d <= 8), 1, 0), cnt[four] == z3.If(d == 4, 1, 0),
                    cnt[one] == z3.If(z3.Or(d == 4, d == 9), 0, d % 5)]

        def goal(p, twin=False):
            if p.kind == "exc" or not isinstance(p.value, str):
                return False
            c = parse(p.value)
            if c is None:
                return False
            if twin:
                c = dict(c, I=c["I"] + 1)
            return z3.And(*([c["M"] == d3] + digit_(c, d2, "CM", "D", "CD", "C") + digit_(c, d1, "XC", "L", "XL", "X") + digit_(c, d0, "IX", "V", "IV", "I")))

        hi = 3999
        assum = [nt >= 1, nt <= hi]
        o = explore_and_prove(lambda: roman(n), assum, goal, max_paths=5000, deadline_s=400, str_mul_fork=9)
        ot = explore_and_prove(lambda: roman(n), [nt >= 1, nt <= 30], lambda p: goal(p, True), max_paths=100, deadline_s=60, max_fail=1, str_mul_fork=9)
        res.update(obligations=o.obligations, discharged=o.discharged, queries=o.queries, paths=o.paths, twin=twin_verdict(ot),
                   bounds="all n in 1..3999 (forking fallback: one path per distinct numeral structure)")
        if o.failed:
            v = "sat"
            fm = o.failed[0][1]
            fallback_n = model_value(fm, n.t) if fm is not None else 1994
        elif o.inconclusive:
            v = "unknown"
        else:
            v = "unsat-fallback"
    res["solver_s"] = time.time() - t0
    # end points of the documented range, evaluated concretely (boundary sanity: a range guard with an off-by-one end point refuses them)
    if v != "sat":
        for n_end, expect in ((1, "I"), (3999, "MMMCMXCIX")):
            try:
                got_end = roman(n_end)
            except Exception as e:
                got_end = repr(e)
            if got_end != expect:
                v = "sat"
                ok_struct = False
                fallback_n = n_end
                break
    if v == "unsat":
        res["discharged"] = 1
        res["status"] = "discharged"
    elif v == "unsat-fallback":
        res["status"] = "discharged"
    elif v == "unknown":
        res["status"] = "inconclusive"
        res["inconclusive"] = ["roman: solver unknown"]
    else:
        nv = (model_value(s.model(), n.t) if ok_struct else fallback_n) if v == "sat" else 1994
        res["violations"].append(dict(key="roman", desc="roman(%s) is not the canonical numeral" % nv, replay_src='''
from chempy.printing.numbers import roman
n = %d
vals = {"M": 1000, "D": 500, "C": 100, "L": 50, "X": 10, "V": 5, "I": 1}
s = roman(n)
tot = 0
for i, ch in enumerate(s):
    v = vals[ch]
    tot += -v if i + 1 < len(s) and vals[s[i + 1]] > v else v
ref = ""
m = n
for t, v in zip("M CM D CD C XC L XL X IX V IV I".split(), (1000, 900, 500, 400, 100, 90, 50, 40, 10, 9, 5, 4, 1)):
    while m >= v: ref += t; m -= v
print(n, s, tot, ref)
sys.exit(0 if (tot == n and s == ref) else 1)
''' % nv))
        res["status"] = "violation"
    return res


def task_cx(tier, only=None):
    from chempy.printing import numbers

    return cxrun.run_harness("cx/C20_numbers.py", timeout=300 if tier == "quick" else 1200, only=only,
                             functions=[env.describe(numbers._latex_pow_10), env.describe(numbers._unicode_pow_10), env.describe(numbers._html_pow_10),
                                        env.describe(numbers._number_to_X)], replay_note="power-of-ten rendering")


REPLAY_UNIT = '''
from chempy.printing.numbers import _number_to_X, number_to_scientific_latex, number_to_scientific_unicode, number_to_scientific_html
from chempy.units import default_units as u
bad = []
for q in (1.5 * u.metre / u.second, 2.5e-7 * u.molar, 3.0 * u.metre ** 2):
    for flt in ("1.5e-07", "2.5"):
        pow10 = lambda s, m: "<" + s + "|" + m + ">"
        core = ("<%s|%s>" % tuple(flt.split("e"))) if "e" in flt else flt
        a = _number_to_X(q, None, None, lambda mag: flt, lambda un: "UNIT_A", pow10, space=" ")
        b = _number_to_X(q, None, None, lambda mag: flt, lambda un: "unit_b", pow10, space="~")
        c = _number_to_X(q, None, None, lambda mag: flt, lambda un: "UNIT_A", pow10, space=" ")
        if (a, b, c) != (core + " UNIT_A", core + "~unit_b", core + " UNIT_A"): bad.append((str(q), flt, a, b, c))
    first = number_to_scientific_unicode(q)
    number_to_scientific_latex(q); number_to_scientific_html(q)
    if number_to_scientific_unicode(q) != first: bad.append((str(q), "unicode rendering changed after the other formats were used", first, number_to_scientific_unicode(q)))
for b in bad: print("MISMATCH", b)
sys.exit(1 if bad else 0)
'''


def task_unit_sequence():
    """concrete sanity (NOT solver evidence: real `quantities` objects carry no symbolic content and CrossHair does not get through the
    conversion within 300 s): the unit is rendered by the unit formatter and separator of THE CALL, whatever was asked before"""
    import subprocess
    import sys as _sys

    src = "import sys\nsys.path.insert(0, %r)\n" % env.REPO + REPLAY_UNIT
    r = subprocess.run([_sys.executable, "-c", src], capture_output=True, text=True, timeout=300)
    from chempy.printing import numbers

    res = dict(engine="concrete", functions=[env.describe(numbers._number_to_X)], obligations=1, discharged=1 if r.returncode == 0 else 0, violations=[],
               queries=0, twin="n/a", bounds="3 quantities x 2 spellings x 3 calls in sequence (concrete sanity, not counted as solver evidence)",
               sample={"sequence": "format A, format B, format A on the same quantity"})
    if r.returncode == 1 and "MISMATCH" in r.stdout:
        res["violations"].append(dict(key="unit_sequence", desc="unit placement depends on earlier calls: %s" % r.stdout[-300:], replay_src=REPLAY_UNIT))
    elif r.returncode != 0:
        res["inconclusive"] = ["unit sequence could not be evaluated: %s" % r.stderr[-200:]]
    res["status"] = "violation" if res["violations"] else ("inconclusive" if res.get("inconclusive") else "discharged")
    return res


def tasks(tier, seed):
    ts = [dict(id="C20.roman", fn="task_roman", kwargs={}, timeout=1800)]
    ts.append(dict(id="C20.unit_sequence", fn="task_unit_sequence", kwargs={}, timeout=600))
    for h in ("latex", "unicode", "html", "number_to_X", "unpadded_exponent"):
        ts.append(dict(id="C20.%s" % h, fn="task_cx", kwargs=dict(tier=tier, only="_h_" + h), timeout=3000))
    return ts
