"""Forward-mode automatic differentiation over Engine-Z numbers.

``Dual(v, d)`` carries a value and its derivative w.r.t. one chosen variable; both components are ordinary
numbers or ``SymNum``.  Running a real chempy closed form with ``t = Dual(t, 1)`` and ``backend=ZBackend()``
yields (f, df/dt) as z3 terms; the chain rules below are the only calculus that is trusted.
"""
from .zsym import SymNum


def _v(x):
    return (x.v, x.d) if isinstance(x, Dual) else (x, 0)


class Dual(object):
    __array_priority__ = 2000
    __slots__ = ("v", "d")

    def __init__(self, v, d):
        self.v, self.d = v, d

    def __repr__(self):
        return "Dual(%r, %r)" % (self.v, self.d)

    def __add__(s, o):
        ov, od = _v(o)
        return Dual(s.v + ov, s.d + od)

    __radd__ = __add__

    def __sub__(s, o):
        ov, od = _v(o)
        return Dual(s.v - ov, s.d - od)

    def __rsub__(s, o):
        ov, od = _v(o)
        return Dual(ov - s.v, od - s.d)

    def __mul__(s, o):
        ov, od = _v(o)
        return Dual(s.v * ov, s.d * ov + s.v * od)

    __rmul__ = __mul__

    def __truediv__(s, o):
        ov, od = _v(o)
        return Dual(s.v / ov, (s.d * ov - s.v * od) / (ov * ov))

    def __rtruediv__(s, o):
        ov, od = _v(o)
        return Dual(ov / s.v, (od * s.v - ov * s.d) / (s.v * s.v))

    def __neg__(s):
        return Dual(-s.v, -s.d)

    def __pos__(s):
        return s

    def __pow__(s, n):
        if isinstance(n, int) and not isinstance(n, bool):
            if n == 0:
                return Dual(1, 0)
            return Dual(s.v ** n, n * s.v ** (n - 1) * s.d)
        raise TypeError("Dual ** %r" % (n,))

    # hook used by ZBackend: f(Dual)
    def _z_apply(self, name, g):
        y = g(self.v)
        if name == "exp":
            return Dual(y, y * self.d)
        if name == "sqrt":
            return Dual(y, self.d / (2 * y))
        if name == "tanh":
            return Dual(y, (1 - y * y) * self.d)
        if name == "atanh":
            return Dual(y, self.d / (1 - self.v * self.v))
        if name == "log":
            return Dual(y, self.d / self.v)
        raise TypeError("no derivative rule for %s" % name)
