"""Idealised `units=` / `constants=` namespaces: every base unit is a number (a free positive z3 real for proofs, a
float for replays); derived and prefixed units are products.  Contract modelled: quantities form a commutative group
under * with real scaling (the documented behaviour of the `quantities` package); deviations of the real package
from that contract (no auto-simplification before math.log, float() of a compound unit) are outside every claim."""
import fractions

from .zsym import Real, Const

BASE = "m kg s K mol A cd".split()
CODATA = dict(F=96485.33289, R=8.3144598, kB=1.38064852e-23, e=1.60217662e-19, NA=6.022140857e23, eps0=8.854187817e-12,
              h=6.62607004e-34)


class Units(object):
    def __init__(self, base):
        """base: dict name -> number (SymNum or float) for m kg s K mol A cd"""
        self.base = base
        m, kg, s, K, mol, A = (base[n] for n in "m kg s K mol A".split())
        self.meter = self.metre = self.m = m
        self.kilogram = self.kg = kg
        self.second = self.s = s
        self.kelvin = self.Kelvin = self.K = K
        self.mol = self.mole = mol
        self.ampere = self.A = A
        self.candela = base["cd"]
        self.gram = self.g = kg / 1000
        self.joule = self.Joule = self.J = kg * m ** 2 / s ** 2
        self.coulomb = self.C = A * s
        self.newton = kg * m / s ** 2
        self.pascal = self.Pa = kg / m / s ** 2
        self.bar = 100000 * self.pascal
        self.atm = 101325 * self.pascal
        self.volt = self.V = self.joule / self.coulomb
        self.dm = self.decimetre = m / 10
        self.cm = self.centimetre = m / 100
        self.m3 = m ** 3
        self.dm3 = self.dm ** 3
        self.molar = self.M = 1000 * mol / m ** 3
        self.millimolar = self.mM = mol / m ** 3
        self.molal = mol / kg
        self.centipoise = self.cP = self.pascal * s / 1000
        self.hour = 3600 * s
        self.minute = 60 * s
        self.per100eV = mol / self.joule * fractions.Fraction(1, 1)  # scale irrelevant for dimension bookkeeping
        self.dimensionless = 1


def sym_units(prefix="u_"):
    base = {n: Real(prefix + n) for n in BASE}
    u = Units(base)
    u.assumptions = [v.t > 0 for v in base.values()]
    return u


def float_units(values):
    return Units({n: float(values.get(n, 1.0)) for n in BASE})


class Constants(object):
    def __init__(self, u, values):
        """values: dict name -> number for F R kB e NA eps0 h"""
        self.values = values
        self.Faraday_constant = values["F"] * u.coulomb / u.mol
        self.molar_gas_constant = values["R"] * u.joule / u.K / u.mol
        self.Boltzmann_constant = values["kB"] * u.joule / u.K
        self.elementary_charge = values["e"] * u.coulomb
        self.Avogadro_constant = values["NA"] / u.mol
        self.vacuum_permittivity = values["eps0"] * u.coulomb ** 2 / (u.joule * u.m)
        self.Planck_constant = values["h"] * u.joule * u.s
        self.pi = 3.141592653589793


def sym_constants(u, symbolic_values=True, prefix="k_"):
    if symbolic_values:
        vals = {k: Real(prefix + k) for k in CODATA}
        c = Constants(u, vals)
        c.assumptions = [v.t > 0 for v in vals.values()]
    else:
        vals = {k: Const(v) for k, v in CODATA.items()}
        c = Constants(u, vals)
        c.assumptions = []
    return c


def float_constants(u, values=None):
    vals = dict(CODATA)
    vals.update(values or {})
    return Constants(u, {k: float(v) for k, v in vals.items()})
