"""C19 - physical-chemistry relations give unit-independent values in their valid ranges (Engine Z, vlib/ucase.py)."""
import time
from fractions import Fraction

import z3

from vlib import env, ucase
from vlib.zsym import Real, Const, ZBackend, lift, model_value

META = {
    "level": "other",
    "explanation": "bounded symbolic verification: each correlation/relation is executed on z3 reals twice - unitless and with a units "
                   "namespace whose base units are free positive reals (and constants objects built from them) - and z3 proves "
                   "units_result == unitless_result * unit for ALL unit scales (same physical value in any compatible units, result "
                   "dimension, dimensional homogeneity), the defining formula, and 'range warning issued <=> input outside the documented "
                   "range' on every path; shape lemmas (density maximum at 3.98 C, viscosity exponent decreasing) as NRA queries",
    "bounds": {"quick": "temperatures in [0.8*lo, 1.2*hi] of each documented range, all positive unit scales, charges -4..4",
               "thorough": "same (the claims are unbounded in the values; thorough adds symbolic correlation parameters)"},
    "assumptions": [
        "idealised units stub (vlib/usyms.py): quantities form a commutative group under * with real scaling; behaviour of the real "
        "`quantities` package that deviates from it (math.log of an unsimplified quantity - the Nernst example of the statement -, "
        "float() of compound units) is outside the claim",
        "identities over the reals with float literals taken exactly; range boundaries with a +-1e-9 relative band",
        "transcendental functions uninterpreted + ground facts (vlib/ufnorm.py)",
        "sulfuric_acid_density: the VALUE (float()+numpy table) and density_from_concentration (float iteration) are not applicable; its range "
        "warnings are decided before the float() barrier and ARE claimed (task sulfuric_acid_warnings)",
    ],
    "outside": ["sulfuric_acid_density", "density_from_concentration", "real-quantities evaluation", "published anchor values beyond those listed"],
    "trusted_base": ["z3 5.1", "vlib/zsym.py", "vlib/ufnorm.py", "vlib/usyms.py"],
}

POS = (Fraction(1, 10 ** 6), None)

CASES = [
    dict(name="water_density", targets=["chempy.properties.water_density_tanaka_2001.water_density"],
         setup="from chempy.properties.water_density_tanaka_2001 import water_density as f",
         vars={"T": (220, 375)}, plain="f(T)", units="f(T*U.Kelvin, units=U)", unit="U.kilogram/U.meter**3",
         warn=("T", Fraction(273.15), Fraction(273.15) + 40), warn_exact=True),
    # optional arguments: the reference temperature (any value incl. 0: Celsius input) and the five parameters of Thiesen's equation
    dict(name="water_density_T0_a", targets=["chempy.properties.water_density_tanaka_2001.water_density"],
         setup="from chempy.properties.water_density_tanaka_2001 import water_density as f",
         vars={"t": (0, 40), "T0": (-300, 300), "p0": (-10, 10), "p1": POS, "p2": POS, "p3": POS, "p4": POS},
         plain="(f(t + T0, T0, warn=False), f(t + T0, T0, a=(p0, p1, p2, p3, p4), warn=False), f(a=(p0, p1, p2, p3, p4), just_return_a=True)[2], "
               "f(t, 0, warn=False), f(t + Const(273.15), None, warn=False))",
         units="(f((t + T0)*U.Kelvin, T0*U.Kelvin, units=U, warn=False), "
               "f((t + T0)*U.Kelvin, T0*U.Kelvin, a=(p0*U.Kelvin, p1*U.Kelvin, p2*U.Kelvin**2, p3*U.Kelvin, p4*U.kilogram/U.meter**3), units=U, warn=False), "
               "f(a=(p0, p1, p2*U.Kelvin**2, p3, p4), units=U, just_return_a=True)[2], f(t*U.Kelvin, 0*U.Kelvin, units=U, warn=False), "
               "f((t + Const(273.15))*U.Kelvin, None, units=U, warn=False))",
         unit="(U.kilogram/U.meter**3, U.kilogram/U.meter**3, U.Kelvin**2, U.kilogram/U.meter**3, U.kilogram/U.meter**3)",
         formula="(f(t + Const(273.15), warn=False), p4*(1 - ((t + p0)**2*(t + p1))/(p2*(t + p3))), p2, f(t + Const(273.15), warn=False), "
                 "Const(999.974950)*(1 - ((t - Const(3.983035))**2*(t + Const(301.797)))/(Const(522528.9)*(t + Const(69.34881)))))"),
    dict(name="water_viscosity", targets=["chempy.properties.water_viscosity_korson_1969.water_viscosity"],
         setup="from chempy.properties.water_viscosity_korson_1969 import water_viscosity as f",
         vars={"T": (220, 447)}, plain="f(T)", units="f(T*U.kelvin, units=U)", unit="U.centipoise",
         warn=("T", Fraction(273.15), Fraction(273.15) + 100), warn_exact=True),
    dict(name="water_viscosity_eta20", targets=["chempy.properties.water_viscosity_korson_1969.water_viscosity"],
         setup="from chempy.properties.water_viscosity_korson_1969 import water_viscosity as f",
         vars={"T": (274, 373), "eta": POS}, plain="f(T, eta)", units="f(T*U.kelvin, eta*U.pascal*U.second, units=U)",
         unit="U.pascal*U.second"),
    dict(name="water_diffusivity", targets=["chempy.properties.water_diffusivity_holz_2000.water_self_diffusion_coefficient"],
         setup="from chempy.properties.water_diffusivity_holz_2000 import water_self_diffusion_coefficient as f",
         vars={"T": (220, 447)}, plain="f(T)", units="f(T*U.Kelvin, units=U)", unit="U.meter**2/U.second",
         warn=("T", Fraction(273.15), Fraction(373.15)), warn_exact=True),
    dict(name="water_diffusivity_err", targets=["chempy.properties.water_diffusivity_holz_2000.water_self_diffusion_coefficient"],
         setup="from chempy.properties.water_diffusivity_holz_2000 import water_self_diffusion_coefficient as f",
         vars={"T": (274, 373), "e0": (-3, 3), "e1": (-3, 3)}, plain="f(T, err_mult=(e0, e1))",
         units="f(T*U.Kelvin, units=U, err_mult=(e0, e1))", unit="U.meter**2/U.second",
         formula="(Const(1.635e-8) + e0*Const(2.242e-11))*((T/(Const(215.05) + e1*Const(1.2))) - 1)**2.063"),
    # defaults (T = 298.15 K) and a sequence: a perturbed evaluation must leave nothing behind for the next plain one
    dict(name="defaults_and_sequence", targets=["chempy.properties.water_density_tanaka_2001.water_density",
                                                "chempy.properties.water_viscosity_korson_1969.water_viscosity",
                                                "chempy.properties.water_diffusivity_holz_2000.water_self_diffusion_coefficient"],
         setup="from chempy.properties.water_density_tanaka_2001 import water_density as f_rho\n"
               "from chempy.properties.water_viscosity_korson_1969 import water_viscosity as f_eta\n"
               "from chempy.properties.water_diffusivity_holz_2000 import water_self_diffusion_coefficient as f_D",
         vars={"T": (274, 373), "e0": (-3, 3), "e1": (-3, 3)},
         plain="(f_rho(Const(298.15)), f_eta(Const(298.15)), f_D(Const(298.15)), (f_D(T, err_mult=(e0, e1)), f_D(T))[1], (f_D(T, err_mult=(e0, e1)), f_D(T, err_mult=(e1, e0)))[1])",
         units="(f_rho(units=U), f_eta(units=U), f_D(units=U), (f_D(T*U.Kelvin, units=U, err_mult=(e0, e1)), f_D(T*U.Kelvin, units=U))[1], "
               "(f_D(T*U.Kelvin, units=U, err_mult=(e0, e1)), f_D(T*U.Kelvin, units=U, err_mult=(e1, e0)))[1])",
         unit="(U.kilogram/U.meter**3, U.centipoise, U.meter**2/U.second, U.meter**2/U.second, U.meter**2/U.second)",
         formula="(f_rho(Const(298.15)), f_eta(Const(298.15)), f_D(Const(298.15)), Const(1.635e-8)*((T/Const(215.05)) - 1)**2.063, "  # 1-3: units mode
                 "(Const(1.635e-8) + e1*Const(2.242e-11))*((T/(Const(215.05) + e0*Const(1.2))) - 1)**2.063)"),
    dict(name="water_permittivity", targets=["chempy.properties.water_permittivity_bradley_pitzer_1979.water_permittivity"],
         setup="from chempy.properties.water_permittivity_bradley_pitzer_1979 import water_permittivity as f",
         vars={"T": (220, 745), "P": (Fraction(1, 2), 1900)}, plain="f(T, P, backend=be)",
         units="f(T*U.kelvin, P*U.bar, units=U, backend=be)", unit="1", warn=("T", 273.15, 623.15)),
    dict(name="water_permittivity_defaults", targets=["chempy.properties.water_permittivity_bradley_pitzer_1979.water_permittivity"],
         setup="from chempy.properties.water_permittivity_bradley_pitzer_1979 import water_permittivity as f",
         vars={"T": (274, 620), "P": (Fraction(1, 2), 900)},
         plain="(f(T, warn=False, backend=be), f(T, None, None, None, False, False, be), f(T, P, warn=False, backend=be), "
               "f(T, P, U=f(just_return_U=True), warn=False, backend=be))",
         units="(f(T*U.kelvin, units=U, warn=False, backend=be), f(T*U.kelvin, None, U, None, False, False, be), "
               "f(T*U.kelvin, P*U.bar, units=U, warn=False, backend=be), f(T*U.kelvin, P*U.bar, units=U, U=f(units=U, just_return_U=True), warn=False, backend=be))",
         unit="1",
         formula="(f(T, Const(1), warn=False, backend=be), f(T, Const(1), warn=False, backend=be), f(T, P, warn=False, backend=be), f(T, P, warn=False, backend=be))"),
    # default backend (backend omitted): permittivity and Henry's law give the same closed forms
    dict(name="default_backend", targets=["chempy.properties.water_permittivity_bradley_pitzer_1979.water_permittivity", "chempy.henry.Henry_H_at_T"],
         setup="from chempy.properties.water_permittivity_bradley_pitzer_1979 import water_permittivity as f\nfrom chempy.henry import Henry_H_at_T as fh, Henry",
         vars={"T": (274, 620), "P": (Fraction(1, 2), 900), "H": POS, "Td": (None, None), "T0": (200, 500)},
         plain="(f(T, P, warn=False), fh(T, H, Td, T0), Henry(H, Td, T0)(T))",
         formula="(f(T, P, warn=False, backend=be), fh(T, H, Td, T0, backend=be), fh(T, H, Td, T0, backend=be))"),
    dict(name="lg_solubility_ratio", targets=["chempy.properties.gas_sol_electrolytes_schumpe_1993.lg_solubility_ratio"],
         setup="from chempy.properties.gas_sol_electrolytes_schumpe_1993 import lg_solubility_ratio as f, p_gas_rM, p_ion_rM",
         vars={"c1": POS, "c2": POS}, plain="f({'Na+': c1, 'Cl-': c2}, 'O2')",
         units="f({'Na+': c1*U.molar, 'Cl-': c2*1000*U.millimolar}, 'O2', units=U)", unit="1",
         formula="(Const(p_gas_rM['O2']) + Const(p_ion_rM['Na+']))*c1 + (Const(p_gas_rM['O2']) + Const(p_ion_rM['Cl-']))*c2"),
    # an ion whose tabulated parameter is exactly zero (H+ is the reference ion of the model) still contributes the gas-specific term
    dict(name="lg_solubility_ratio_reference_ion", targets=["chempy.properties.gas_sol_electrolytes_schumpe_1993.lg_solubility_ratio"],
         setup="from chempy.properties.gas_sol_electrolytes_schumpe_1993 import lg_solubility_ratio as f, p_gas_rM, p_ion_rM",
         vars={"c1": POS, "c2": POS}, plain="(f({'H+': c1, 'Cl-': c2}, 'CO2'), f({'H+': c1, 'Cl-': c2}, 'He', warn=False), f({'H+': c1}, 'CO2'))",
         units="(f({'H+': c1*U.molar, 'Cl-': c2*1000*U.millimolar}, 'CO2', units=U), f({'H+': c1*U.molar, 'Cl-': c2*U.molar}, 'He', units=U, warn=False), "
               "f({'H+': c1*U.molar}, 'CO2', units=U))", unit="1",
         formula="((Const(p_gas_rM['CO2']) + Const(p_ion_rM['H+']))*c1 + (Const(p_gas_rM['CO2']) + Const(p_ion_rM['Cl-']))*c2, "
                 "(Const(p_gas_rM['He']) + Const(p_ion_rM['H+']))*c1 + (Const(p_gas_rM['He']) + Const(p_ion_rM['Cl-']))*c2, "
                 "(Const(p_gas_rM['CO2']) + Const(p_ion_rM['H+']))*c1)"),
    # array-valued concentrations (one entry per sample): element-wise the same sum, and the caller's arrays keep their values
    dict(name="lg_solubility_ratio_arrays", targets=["chempy.properties.gas_sol_electrolytes_schumpe_1993.lg_solubility_ratio"],
         setup="import numpy as np\nfrom chempy.properties.gas_sol_electrolytes_schumpe_1993 import lg_solubility_ratio as f, p_gas_rM, p_ion_rM",
         vars={"c1": POS, "c2": POS, "c3": POS},
         plain="(lambda A, B: (lambda r: (r[0], r[1], A[0], A[1], B[0], B[1]))(f({'Na+': A, 'Cl-': B}, 'O2')))"
               "(np.array([c1, c2], dtype=object), np.array([c3, c1], dtype=object))",
         formula="((Const(p_gas_rM['O2']) + Const(p_ion_rM['Na+']))*c1 + (Const(p_gas_rM['O2']) + Const(p_ion_rM['Cl-']))*c3, "
                 "(Const(p_gas_rM['O2']) + Const(p_ion_rM['Na+']))*c2 + (Const(p_gas_rM['O2']) + Const(p_ion_rM['Cl-']))*c1, "
                 "c1*1, c2*1, c3*1, c1*1)"),
    dict(name="Henry_H_at_T", targets=["chempy.henry.Henry_H_at_T"], setup="from chempy.henry import Henry_H_at_T as f",
         vars={"T": (200, 500), "H": POS, "Td": (None, None), "T0": (200, 500)}, plain="f(T, H, Td, T0, backend=be)",
         units="f(T*U.Kelvin, H*U.molar/U.atm, Td*U.Kelvin, T0*U.Kelvin, units=U, backend=be)", unit="U.molar/U.atm",
         formula="H*be.exp(Td*(1/T - 1/T0))"),
    dict(name="Henry_default_T0", targets=["chempy.henry.Henry_H_at_T"], setup="from chempy.henry import Henry_H_at_T as f",
         vars={"T": (200, 500), "H": POS, "Td": (None, None)}, plain="f(T*U.Kelvin, H, Td*U.Kelvin, units=U, backend=be)",
         formula="H*be.exp(Td*U.Kelvin*(1/(T*U.Kelvin) - 1/(Const(298.15)*U.Kelvin)))"),
    dict(name="Henry_class", targets=["chempy.henry.Henry:__call__", "chempy.henry.Henry:get_c_at_T_and_P", "chempy.henry.Henry:get_P_at_T_and_c",
                                      "chempy.henry.HenryWithUnits:__call__"],
         setup="from chempy.henry import Henry, HenryWithUnits",
         vars={"T": (200, 500), "H": POS, "Td": (None, None), "T0": (200, 500), "P": POS},
         plain="(Henry(H, Td, T0)(T, backend=be), Henry(H, Td, T0).get_P_at_T_and_c(T, Henry(H, Td, T0).get_c_at_T_and_P(T, P, backend=be), backend=be), "
               "Henry(H, Td, T0).get_c_at_T_and_P(T, P, backend=be))",
         units="(HenryWithUnits(H*U.molar/U.atm, Td*U.K, T0*U.K)(T*U.K, units=U, backend=be), "
               "HenryWithUnits(H*U.molar/U.atm, Td*U.K, T0*U.K).get_P_at_T_and_c(T*U.K, HenryWithUnits(H*U.molar/U.atm, Td*U.K, T0*U.K)"
               ".get_c_at_T_and_P(T*U.K, P*U.bar, units=U, backend=be), units=U, backend=be), "
               "HenryWithUnits(H*U.molar/U.atm, Td*U.K, T0*U.K).get_c_at_T_and_P(T*U.K, P*U.atm, units=U, backend=be))",
         unit="(U.molar/U.atm, U.bar, U.molar)",
         formula="(H*be.exp(Td*(1/T - 1/T0)), P, P*H*be.exp(Td*(1/T - 1/T0)))"),
    dict(name="nernst", targets=["chempy.electrochemistry.nernst.nernst_potential"],
         setup="from chempy.electrochemistry.nernst import nernst_potential as f",
         vars={"co": POS, "ci": POS, "n_z": (-4, 4), "T": (1, 1000)}, assume=["n_z != 0"],
         plain="f(co, ci, n_z, T, backend=be)", units="f(co*1000*U.millimolar, ci*U.molar, n_z, T*U.kelvin, units=U, backend=be)",
         unit="U.volt", formula="Const(8.3144598)*T/(n_z*Const(96485.33289))*be.log(co/ci)"),
    dict(name="nernst_constants", targets=["chempy.electrochemistry.nernst.nernst_potential"],
         setup="from chempy.electrochemistry.nernst import nernst_potential as f",
         vars={"co": POS, "ci": POS, "n_z": (-4, 4), "T": (1, 1000)}, assume=["n_z != 0"],
         plain="f(co, ci, n_z, T, backend=be)", units="f(co*U.molar, ci*U.molar, n_z, T*U.kelvin, constants=C, units=U, backend=be)",
         unit="U.volt"),
    dict(name="nernst_symbolic_constants", targets=["chempy.electrochemistry.nernst.nernst_potential"],
         setup="from chempy.electrochemistry.nernst import nernst_potential as f",
         vars={"co": POS, "ci": POS, "n_z": (-4, 4), "T": (1, 1000)}, assume=["n_z != 0"],
         plain="f(co*U.molar, ci*U.molar, n_z, T*U.kelvin, constants=Cs, units=U, backend=be)",
         formula="Cs.molar_gas_constant*T*U.kelvin/(n_z*Cs.Faraday_constant)*be.log(co/ci)"),
    dict(name="mobility", targets=["chempy.einstein_smoluchowski.electrical_mobility_from_D"],
         setup="from chempy.einstein_smoluchowski import electrical_mobility_from_D as f",
         vars={"D": POS, "n_z": (-4, 4), "T": (1, 1000)}, plain="f(D, n_z, T)",
         units="f(D*U.meter**2/U.second, n_z, T*U.kelvin, units=U)", unit="U.meter**2/U.volt/U.second",
         formula="D*n_z*Const(1.60217662e-19)/(Const(1.38064852e-23)*T)"),
    dict(name="mobility_constants", targets=["chempy.einstein_smoluchowski.electrical_mobility_from_D"],
         setup="from chempy.einstein_smoluchowski import electrical_mobility_from_D as f",
         vars={"D": POS, "n_z": (-4, 4), "T": (1, 1000)}, plain="f(D, n_z, T)",
         units="f(D*U.meter**2/U.second, n_z, T*U.kelvin, constants=C, units=U)", unit="U.meter**2/U.volt/U.second"),
]


def task_case(casename):
    return ucase.task_case("checks.C19", casename)


def task_shape():
    """water densest at 3.98 C over the documented range; viscosity exponent strictly decreasing over 0-100 C;
    permittivity's 1000-bar exponent decreasing over its range"""
    from chempy.properties.water_density_tanaka_2001 import water_density
    from chempy.properties.water_viscosity_korson_1969 import water_viscosity
    from chempy.properties.water_permittivity_bradley_pitzer_1979 import water_permittivity

    res = dict(engine="Z", functions=[env.describe(water_density), env.describe(water_viscosity), env.describe(water_permittivity)],
               obligations=0, discharged=0, violations=[], inconclusive=[], queries=0, solver_s=0.0,
               bounds="T over each documented range (reals)")
    t0 = time.time()
    T, T2 = Real("T"), Real("T2")
    rng = [T.t >= lift(273.15), T.t <= lift(313.15)]
    rho = water_density(T, warn=False)
    Tmax = Const(273.15) + Const(3.983035)
    rho_max = water_density(Tmax, warn=False)
    s = z3.Solver()
    s.set("timeout", 60000)
    s.add(*rng)
    s.add(rho.t > rho_max.t)
    r1 = str(s.check())
    res["obligations"] += 1
    res["queries"] += 1
    if r1 == "unsat":
        res["discharged"] += 1
    elif r1 == "sat":
        Tv = model_value(s.model(), T.t)
        res["violations"].append(dict(key="shape:density-maximum", desc="water_density(%s) exceeds the value at 3.98 C" % float(Tv), replay_src='''
from chempy.properties.water_density_tanaka_2001 import water_density
T = %r
sys.exit(1 if water_density(T, warn=False) > water_density(273.15 + 3.983035, warn=False) * (1 + 1e-12) else 0)
''' % float(Tv)))
    else:
        res["inconclusive"].append("density maximum: unknown")
    # twin: claim the maximum is at 10 C instead
    s = z3.Solver()
    s.add(*rng)
    s.add(rho.t > water_density(Const(283.15), warn=False).t)
    tw = str(s.check())
    # viscosity: capture the exponent through the backend-free pow UF: run with eta20=1 and read the argument of pow(10, .)
    v1 = water_viscosity(T, eta20=1, warn=False).t
    v2 = water_viscosity(T2, eta20=1, warn=False).t

    def exponent(t):
        apps = []

        def walk(x):
            if z3.is_app(x) and x.decl().name() == "pow":
                apps.append(x)
            for c in x.children():
                walk(c)
        walk(t)
        assert len(apps) == 1 and z3.simplify(apps[0].arg(0) == 10).eq(z3.BoolVal(True)), apps
        return apps[0].arg(1)

    e1, e2 = exponent(v1), exponent(v2)
    s = z3.Solver()
    s.set("timeout", 60000)
    s.add(T.t >= lift(273.15), T2.t <= lift(373.15), T.t < T2.t)
    s.add(e1 <= e2)
    r2 = str(s.check())
    res["obligations"] += 1
    res["queries"] += 1
    if r2 == "unsat":
        res["discharged"] += 1
    elif r2 == "sat":
        a, b = float(model_value(s.model(), T.t)), float(model_value(s.model(), T2.t))
        res["violations"].append(dict(key="shape:viscosity-decreasing", desc="viscosity not decreasing between %s and %s K" % (a, b), replay_src='''
from chempy.properties.water_viscosity_korson_1969 import water_viscosity
a, b = %r, %r
sys.exit(1 if water_viscosity(a, warn=False) <= water_viscosity(b, warn=False) else 0)
''' % (a, b)))
    else:
        res["inconclusive"].append("viscosity monotonicity: unknown")
    # anchors (exact rational evaluation of the executed term; published tables)
    from vlib.zeval import zeval

    anchors = [("water_density", rho.t, {"T": 273.15 + 20}, 998.2067, 2e-6), ("water_density", rho.t, {"T": 273.15 + 4}, 999.9749, 2e-6),
               ("water_density", rho.t, {"T": 273.15 + 40}, 992.2152, 2e-6), ("water_viscosity", v1, {"T": 293.15}, 1.0, 1e-12),
               ("water_viscosity", v1 * lift(1.0020), {"T": 298.15}, 0.8903, 5e-4)]
    for nme, term_, pt, ref, tol in anchors:
        res["obligations"] += 1
        val = float(zeval(term_, pt))
        if abs(val - ref) <= tol * abs(ref):
            res["discharged"] += 1
        else:
            res["violations"].append(dict(key="anchor:%s:%s" % (nme, pt["T"]), desc="%s(%s) = %r, published %r" % (nme, pt, val, ref), soft=True,
                                          replay_src='''
from chempy.properties.water_density_tanaka_2001 import water_density
from chempy.properties.water_viscosity_korson_1969 import water_viscosity
v = %s(%r, warn=False)
sys.exit(1 if abs(v - %r) > %r * %r else 0)
''' % (nme, pt["T"], ref, tol, ref)))
    res["twin"] = "violated" if tw == "sat" else "passed"
    res["solver_s"] = time.time() - t0
    res["sample"] = {"lemma": "for all T in [273.15, 313.15]: water_density(T) <= water_density(273.15+3.983035)", "verdict": r1}
    res["status"] = "violation" if res["violations"] else ("inconclusive" if res["inconclusive"] else "discharged")
    return res


REPLAY_SA = '''
import warnings
from chempy.properties.sulfuric_acid_density_myhre_1998 import sulfuric_acid_density
T, T0, w = %(vals)s
with warnings.catch_warnings(record=True) as rec:
    warnings.simplefilter("always")
    sulfuric_acid_density(w, T, T0)
msgs = [str(x.message) for x in rec]
wt = any("Temperature" in m for m in msgs); ww = any("Mass fraction" in m for m in msgs)
t = T - T0
bad = []
if (t < -1e-9 or t > 50 + 1e-9) and not wt: bad.append("no temperature warning for t = %%r degC" %% t)
if (1e-9 < t < 50 - 1e-9) and wt: bad.append("spurious temperature warning for t = %%r degC" %% t)
if (w < 0.1 - 1e-9 or w > 0.9 + 1e-9) and not ww: bad.append("no mass-fraction warning for w = %%r" %% w)
if (0.1 + 1e-9 < w < 0.9 - 1e-9) and ww: bad.append("spurious mass-fraction warning for w = %%r" %% w)
for b in bad: print("MISMATCH", b)
sys.exit(1 if bad else 0)
'''


def task_sulfuric_warn():
    """sulfuric_acid_density: the VALUE goes through float()/numpy (not applicable), but the range warnings are decided before that barrier:
    they are recorded on every path up to the float() call and proved <=> (T - T0 outside 0..50) resp. (w outside 0.1..0.9)"""
    import warnings
    from chempy.properties.sulfuric_acid_density_myhre_1998 import sulfuric_acid_density
    from vlib.zrun import explore_and_prove, twin_verdict, concretize, pyrepr
    from vlib.zsym import SymTypeError

    T, T0, w = Real("T"), Real("T0"), Real("w")
    assum = [T.t >= 150, T.t <= 450, T0.t >= -300, T0.t <= 300, w.t >= 0, w.t <= 1]

    def fn():
        with warnings.catch_warnings(record=True) as rec:
            warnings.simplefilter("always")
            try:
                sulfuric_acid_density(w, T, T0)
            except (SymTypeError, TypeError):
                pass  # the float()/numpy barrier after the range checks
            msgs = [str(x.message) for x in rec]
        return any("Temperature" in m for m in msgs), any("Mass fraction" in m for m in msgs)

    band = Fraction(1, 10 ** 9)

    def goal(p, twin=False):
        if p.kind == "exc":
            return False
        wt, ww = p.value
        t = T.t - T0.t
        lo_w, hi_w = lift(0.1), lift(0.9)
        out_t = z3.Or(t < -band, t > 50 + band)
        in_t = z3.And(t > band, t < 50 - band)
        out_w = z3.Or(w.t < lo_w - band, w.t > hi_w + band)
        in_w = z3.And(w.t > lo_w + band, w.t < hi_w - band)
        if twin:
            return z3.BoolVal(not wt)
        return z3.And(z3.Not(in_t) if wt else z3.Not(out_t), z3.Not(in_w) if ww else z3.Not(out_w))

    o = explore_and_prove(fn, assum, goal, max_paths=200, deadline_s=60)
    ot = explore_and_prove(fn, assum, lambda p: goal(p, True), max_paths=200, deadline_s=30, max_fail=1)
    res = dict(engine="Z", functions=[env.describe(sulfuric_acid_density)], obligations=o.obligations, discharged=o.discharged, violations=[],
               inconclusive=list(o.inconclusive), queries=o.queries, paths=o.paths, solver_s=o.solver_s, twin=twin_verdict(ot),
               bounds="T in 150..450, T0 in -300..300 (any reference incl. 0), w in 0..1; warnings only (the value is not applicable)",
               sample={"function": "sulfuric_acid_density(w, T, T0)", "claim": "range warnings <=> out of range"})
    for p, m, g in o.failed[:1]:
        vals = tuple(float(v) for v in concretize(m, [T, T0, w])) if m is not None else (300.0, 0.0, 0.5)
        res["violations"].append(dict(key="sulfuric_warn:%s" % p.kind, desc="(T, T0, w) = %s -> warnings %r" % (vals, p.value), replay_src=REPLAY_SA % dict(vals=repr(vals))))
    res["status"] = "violation" if res["violations"] else ("inconclusive" if res["inconclusive"] else "discharged")
    return res


def tasks(tier, seed):
    ts = [dict(id="C19.%s" % c["name"], fn="task_case", kwargs=dict(casename=c["name"]), timeout=600) for c in CASES]
    ts.append(dict(id="C19.shape", fn="task_shape", kwargs={}, timeout=600))
    ts.append(dict(id="C19.sulfuric_acid_warnings", fn="task_sulfuric_warn", kwargs={}, timeout=300))
    return ts
