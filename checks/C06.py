"""C06 - (claimed part) the advertised safe explicit-Euler step keeps every concentration inside [0, elemental upper bound].

Engine Z: extra['max_euler_step_cb'] is obtained from a REAL get_odesys call; on the captured instances the numeric
collaborators are replaced by stubs (odesys.to_arrays / pre_process = identity, odesys.f_cb = arbitrary reals f_i,
rsys.upper_conc_bounds = the real method called with dtype=object so that symbolic concentrations pass through).  z3 proves,
on every path, 0 <= h <= 1 and 0 <= y_i + h*f_i <= ub_i for ALL y >= 0 and ALL derivative vectors f.
Everything else in C06 (accuracy of LSODA/CVODE integration against exact solutions) is not applicable to this technique.
"""
import time
from fractions import Fraction

import z3

from vlib import env, gen
from vlib.zrun import twin_verdict, wrapper_exc, explore_and_prove, eq_term, concretize, pyrepr
from vlib.zsym import Real, SymNum, SymTypeError, lift, model_value

META = {
    "level": "other",
    "explanation": "bounded symbolic verification of the advertised Euler step only: the real closure returned by get_odesys is executed "
                   "with symbolic state y >= 0 and an arbitrary symbolic derivative vector; z3 proves the step keeps every concentration "
                   "in [0, upper bound] (upper bounds from the real upper_conc_bounds, infinite for species without elemental "
                   "composition) and 0 <= h <= 1",
    "bounds": {"quick": "systems with <= 4 substances (3^n sign patterns x min comparisons paths each), incl. species without composition",
               "thorough": "systems with <= 5 substances"},
    "assumptions": [
        "stubs on the captured instances: odesys.to_arrays/pre_process identity, odesys.f_cb returns arbitrary reals (division by a zero "
        "derivative follows numpy float64 semantics, as for the arrays the real callback returns), "
        "rsys.upper_conc_bounds(y) -> the real method with dtype=object",
        "integration accuracy vs matrix exponentials / closed forms, non-negativity of integrated trajectories: delegated to "
        "LSODA/CVODE through pyodesys - not applicable (no symbolic value survives the C boundary)",
    ],
    "outside": ["all integration accuracy claims of C06", "text input -> result arrays pipeline"],
    "trusted_base": ["z3 5.1", "vlib/zsym.py"],
}

DEADLINE = [400]
EXTRA = [["e-(aq) + OH -> OH-", "e-(aq) + H+ -> H", "H + OH -> H2O"], ["e-(aq) + H+ -> H"], ["e-(aq) + OH -> OH-", "OH + OH -> H2O2"]]

REPLAY = '''
from chempy import ReactionSystem, Substance
from chempy.kinetics.ode import get_odesys
rxn_strs = %(rxns)r
y = %(y)s
f = %(f)s
rsys = ReactionSystem.from_string("\\n".join(s + "; 1" for s in rxn_strs), substance_factory=Substance.from_formula)
odesys, extra = get_odesys(rsys)
names = list(rsys.substances)
yv = [float(y[n]) for n in names]
fv = [float(f[n]) for n in names]
import numpy as np
odesys.f_cb = lambda *a, **k: np.array(fv)      # stub stated in the obligation: arbitrary derivative vector (numpy array, as the real callback returns)
h = extra["max_euler_step_cb"](0, dict(zip(names, yv)))
ub = rsys.upper_conc_bounds(yv)
bad = []
if not (h == h and 0 <= h <= 1): bad.append("h = %%r outside [0, 1]" %% h)
for n, yi, fi, u in zip(names, yv, fv, ub):
    new = yi + h * fi
    if new < -1e-12 * max(1, abs(yi)) or new > u * (1 + 1e-12) + 1e-300: bad.append("%%s: %%r + h*%%r = %%r outside [0, %%r]" %% (n, yi, fi, new, u))
print("h =", h)
for b in bad: print("MISMATCH", b)
sys.exit(1 if bad else 0)
'''


def task_euler(systems, deadline=400):
    DEADLINE[0] = deadline
    return _task_euler(systems)


def _task_euler(systems):
    from chempy import ReactionSystem, Substance
    from chempy.kinetics.ode import get_odesys

    res = dict(engine="Z", functions=[env.describe(get_odesys), env.describe(ReactionSystem.upper_conc_bounds)], obligations=0, discharged=0,
               violations=[], inconclusive=[], queries=0, paths=0, solver_s=0.0, bounds="%d systems; all y >= 0, all real f" % len(systems))
    tw = None
    for rxn_strs in systems:
        rsys = ReactionSystem.from_string("\n".join(s + "; 1" for s in rxn_strs), substance_factory=Substance.from_formula)
        odesys, extra = get_odesys(rsys)
        cb = extra["max_euler_step_cb"]
        if cb is None:
            res["inconclusive"].append("no max_euler_step_cb for %s" % rxn_strs)
            continue
        names = list(rsys.substances)
        y = [Real("y_%d" % i) for i in range(len(names))]
        f = [Real("f_%d" % i) for i in range(len(names))]
        assum = [v.t >= 0 for v in y]
        real_ub = rsys.upper_conc_bounds
        odesys.to_arrays = lambda x_, y_, p_=(): ([x_], list(y_), list(p_))
        odesys.pre_process = lambda x_, y_, p_=(): (x_, y_, p_)
        odesys.f_cb = lambda *a, **k: list(f)
        rsys.upper_conc_bounds = lambda yy, **kw: real_ub(yy, dtype=object, **kw)

        def fn():
            h = cb(0, list(y))
            ub = real_ub(list(y), dtype=object)
            return h, ub

        def goal(p, twin=False):
            if p.kind == "exc":
                return False
            h, ub = p.value
            ht = lift(h)
            if ht is None:
                return False  # h is not a finite number (inf / nan): the step is useless or unsafe
            conds = [ht >= 0, ht <= (1 if not twin else z3.Q(1, 2))]
            for yi, fi, u in zip(y, f, ub):
                new = yi.t + ht * fi.t
                conds.append(new >= 0)
                ut = lift(u)
                if ut is not None:
                    conds.append(new <= ut)
            return z3.And(*conds)

        o = explore_and_prove(fn, assum, goal, max_paths=200000, deadline_s=DEADLINE[0], timeout_ms=30000, numpy_div=True)
        res["obligations"] += o.obligations
        res["discharged"] += o.discharged
        res["queries"] += o.queries
        res["paths"] += o.paths
        res["solver_s"] += o.solver_s
        res["inconclusive"] += o.inconclusive
        for p, m, g in o.failed[:1]:
            yv = dict(zip(names, concretize(m, y)))
            fv = dict(zip(names, concretize(m, f)))
            res["violations"].append(dict(key="euler_step:%s" % p.kind, soft=wrapper_exc(p.value), desc="system %s y=%s f=%s -> %r" % (rxn_strs, yv, fv, p.value),
                                          replay_src=REPLAY % dict(rxns=rxn_strs, y=pyrepr(yv), f=pyrepr(fv))))
        if tw is None:
            ot = explore_and_prove(fn, assum, lambda p: goal(p, True), max_paths=60000, deadline_s=60, max_fail=1, numpy_div=True)
            tw = twin_verdict(ot)
    res["twin"] = tw or "n/a"
    res["sample"] = {"system": systems[0], "state": "symbolic y >= 0", "derivative": "arbitrary symbolic f"}
    res["status"] = "violation" if res["violations"] else ("inconclusive" if res["inconclusive"] else "discharged")
    return res


def tasks(tier, seed):
    from chempy import ReactionSystem, Substance

    maxn = 4 if tier == "quick" else 5
    cand = EXTRA + gen.kin_systems(tier, seed)
    systems = []
    for s in cand:
        try:
            rs = ReactionSystem.from_string("\n".join(x + "; 1" for x in s), substance_factory=Substance.from_formula)
        except Exception:
            continue
        if rs.ns <= maxn and s not in systems:
            systems.append(s)
    systems = systems[: (10 if tier == "quick" else 32)]
    n = min(len(systems), 10 if tier == "quick" else 16)
    return [dict(id="C06.euler.%02d" % i, fn="task_euler", kwargs=dict(systems=systems[i::n], deadline=400 if tier == "quick" else 900), timeout=2400 if tier == "quick" else 4000) for i in range(n)]
