"""Environment: make sure the chempy that is analysed is /repo's working tree."""
import os
import sys

REPO = os.environ.get("VERIF_REPO", "/repo")
VERIF = os.path.dirname(os.path.dirname(os.path.abspath(__file__)))
GUARD = "CHEMPY_VERIF"  # reserved, no hook in /repo needs it today


def setup():
    """Put REPO first on sys.path and verify that chempy is imported from there."""
    os.environ.setdefault(GUARD, "1")
    if sys.path[0] != REPO:
        sys.path.insert(0, REPO)
    import warnings

    warnings.filterwarnings("ignore", category=DeprecationWarning)
    import chempy

    f = os.path.realpath(chempy.__file__)
    if not f.startswith(os.path.realpath(REPO) + os.sep):
        print("HARNESS-ERROR: chempy imported from %s, not from %s" % (f, REPO), file=sys.stderr)
        sys.exit(2)
    return chempy


def source_sha(obj_or_path):
    """SHA-1 of the current source of a function/class (read from REPO at run time)."""
    import hashlib
    import inspect

    try:
        if isinstance(obj_or_path, str):
            with open(os.path.join(REPO, obj_or_path), "rb") as fh:
                src = fh.read()
        else:
            src = inspect.getsource(obj_or_path).encode()
    except Exception as e:  # builtins, C functions
        return "n/a:%s" % type(e).__name__
    return hashlib.sha1(src).hexdigest()[:12]


def describe(fn):
    """qualified name + source hash of an encoded function"""
    mod = getattr(fn, "__module__", "?")
    qn = getattr(fn, "__qualname__", getattr(fn, "__name__", repr(fn)))
    return "%s.%s@%s" % (mod, qn, source_sha(fn))
