"""Helpers shared by Engine-Z checks: explore a harness, prove a goal on every path, collect models."""
import time

import z3

from .zsym import Ctx, Budget, Sym, SymNum, SymBool, lift, model_value, term


def wrapper_exc(e):
    """True if the exception stems from something the number wrapper cannot carry (never a verdict by itself)"""
    from .zsym import SymTypeError

    if isinstance(e, SymTypeError):
        return True
    if not isinstance(e, BaseException):
        return False  # a returned value, not an exception
    msg = str(e)
    if isinstance(e, TypeError) and any(w in msg for w in ("SymNum", "SymBool", "SegStr", "Dual")):
        return True
    # numpy refusing object arrays of symbolic values where it needs machine numbers / booleans (masks, indices, typed ufunc loops)
    numpy_object = ("only integer scalar arrays can be converted to a scalar index", "arrays used as indices must be of integer",
                    "loop of ufunc does not support argument", "did not contain a loop with signature matching types",
                    "Cannot cast ufunc", "cannot be interpreted as an integer", "setting an array element with a sequence",
                    "The truth value of an array", "object arrays are not supported", "must be real number, not")
    return isinstance(e, (TypeError, ValueError, IndexError)) and any(w in msg for w in numpy_object)


def eq_term(a, b):
    """z3 Bool 'a == b' for python/Sym numbers (exact lifting); plain python equality when both concrete"""
    ta, tb = lift(a), lift(b)
    if ta is None or tb is None:
        return z3.BoolVal(a == b)
    if z3.is_int(ta) and z3.is_real(tb):
        ta = z3.ToReal(ta)
    if z3.is_int(tb) and z3.is_real(ta):
        tb = z3.ToReal(tb)
    return ta == tb


def all_eq(pairs):
    return z3.And(*[eq_term(a, b) for a, b in pairs]) if pairs else z3.BoolVal(True)


class Outcome(object):
    def __init__(self):
        self.obligations = 0
        self.discharged = 0
        self.failed = []  # (path, model, goal)
        self.inconclusive = []
        self.queries = 0
        self.paths = 0
        self.solver_s = 0.0
        self.unsupported = 0
        self.marked = 0   # paths on which text was made from a symbolic number

    def merge_stats(self, ctx):
        self.queries += ctx.stats["queries"]
        self.paths += ctx.stats["paths"]
        self.solver_s += ctx.stats["solver_s"]
        self.unsupported += ctx.stats["unsupported"]


def uf_prover(ctx, pc, goal, timeout_ms=20000):
    """prover for goals that contain transcendental UF applications: argument matching + ground facts (vlib/ufnorm.py)"""
    from .ufnorm import UFNorm

    norm = UFNorm(list(ctx.assumptions) + list(pc), timeout_ms=timeout_ms // 2)
    r, m = norm.prove(goal, timeout_ms=timeout_ms)
    ctx.stats["queries"] += 1 + norm.stats["arg_queries"]
    ctx.stats["solver_s"] += norm.stats["solver_s"]
    return r, m


def explore_and_prove(fn, assumptions, goal_of, max_paths=5000, timeout_ms=20000, max_pow=6, out=None, max_fail=3,
                      deadline_s=None, prover=None, numpy_div=False, str_mul_fork=None):
    """Explore fn under assumptions; on every path (as soon as it is explored) prove goal_of(path) (a z3 Bool, or
    None = nothing to prove, or a string = inconclusive reason).  Stops after max_fail failing paths (they are
    candidate counterexamples; more of them add nothing) or when deadline_s is used up (=> inconclusive)."""
    out = out or Outcome()
    ctx = Ctx(assumptions, max_paths=max_paths, timeout_ms=timeout_ms, max_pow=max_pow)
    ctx.numpy_div = numpy_div
    ctx.str_mul_fork = str_mul_fork
    t0 = time.time()
    try:
        for p in ctx.iter_paths(fn):
            g = goal_of(p)
            if "str" in p.notes:
                out.marked += 1
            if g is None:
                continue
            out.obligations += 1
            if isinstance(g, str):
                out.inconclusive.append(g)
                continue
            if isinstance(g, bool):
                g = z3.BoolVal(g)
            if prover is None:
                r, m = ctx.model(*(p.pc + [z3.Not(g)]))
            else:
                r, m = prover(ctx, p.pc, g)
            if r == "unsat":
                out.discharged += 1
            elif r == "sat":
                out.failed.append((p, m, g))
                if len(out.failed) >= max_fail:
                    break
            else:
                # nlsat gave up (its weak side is FINDING a real solution of a polynomial system): look for a witness at a few generic
                # rational points - each is checked by the solver on the fully instantiated formula, so a hit is a genuine model
                m = point_witness(list(ctx.assumptions) + list(p.pc) + [z3.Not(g)]) if prover is None else None
                if m is not None:
                    out.failed.append((p, m, g))
                    if len(out.failed) >= max_fail:
                        break
                else:
                    out.inconclusive.append("solver unknown on path %s" % (p.decisions,))
            if deadline_s is not None and time.time() - t0 > deadline_s:
                out.inconclusive.append("exploration deadline %ss reached after %d paths" % (deadline_s, ctx.stats["paths"]))
                break
    except Budget as e:
        out.inconclusive.append(str(e))
    out.merge_stats(ctx)
    return out


def conjunct_prover(ctx, pc, g):
    """prove a conjunction one conjunct at a time (many small nlsat problems instead of one large one); 'sat' with a model of the first
    conjunct that fails, 'unknown' only if some conjunct stays undecided and no generic point refutes it"""
    parts = list(g.children()) if z3.is_and(g) else [g]
    unknown = []
    for c in parts:
        r, m = ctx.model(*(list(pc) + [z3.Not(c)]))
        if r == "sat":
            return r, m
        if r != "unsat":
            unknown.append(c)
    for c in unknown:
        m = point_witness(list(ctx.assumptions) + list(pc) + [z3.Not(c)])
        if m is not None:
            return "sat", m
    return ("unknown" if unknown else "unsat"), None


def point_witness(formulas, tries=12):
    """a model of the conjunction found by instantiating every free variable at generic points (None if none of the points satisfies it)"""
    from .zsym import free_vars
    import fractions

    acc = {}
    for f in formulas:
        free_vars(f, acc)
    vs = [v for _, v in sorted(acc.items()) if z3.is_real(v) or z3.is_int(v)]
    if not vs or len(vs) > 400:
        return None
    for k in range(tries):
        s = z3.Solver()
        s.set("timeout", 5000)
        for i, v in enumerate(vs):
            if z3.is_int(v):
                val = z3.IntVal(1 + (i + k) % (2 + k))
            else:
                fr = [fractions.Fraction(2 * i + 3 + k, 2 + (i + k) % 3), fractions.Fraction(i + 1 + k, 7), fractions.Fraction(3 + i, 1 + k),
                      fractions.Fraction(1, 2 + i + k)][k % 4]
                val = z3.Q(fr.numerator, fr.denominator)
            s.add(v == val)
        s.add(*formulas)
        if str(s.check()) == "sat":
            return s.model()
    return None


def soft_path(p):
    """a failing path whose verdict may be an artefact of the number wrapper: it ended in a wrapper exception, or text was made from a
    symbolic number on the way (the result may depend on digits the wrapper does not model)"""
    return bool(wrapper_exc(p.value) or "str" in (p.notes or ()))


def twin_verdict(o):
    """reachability twin: 'violated' (good), 'passed' (the obligation is vacuous => harness error) or 'unknown' (the twin run was cut
    short by its deadline / solver unknowns before it met a failing path: says nothing)"""
    if o.failed:
        return "violated"
    return "unknown" if (o.inconclusive or getattr(o, "marked", 0)) else "passed"


def twin_violated(fn, assumptions, goal_of, **kw):
    """reachability twin: with a deliberately wrong goal at least one path must fail"""
    o = explore_and_prove(fn, assumptions, goal_of, **kw)
    return "violated" if o.failed else "passed"


def concretize(m, syms):
    """{name: python value} for a dict/list of SymNum under model m"""
    if isinstance(syms, dict):
        return {k: model_value(m, v.t) if isinstance(v, Sym) else v for k, v in syms.items()}
    return [model_value(m, v.t) if isinstance(v, Sym) else v for v in syms]


def pyrepr(v):
    """source text for ints / Fractions / nested containers thereof"""
    from fractions import Fraction

    if isinstance(v, Fraction):
        if v.denominator == 1:
            return repr(v.numerator)
        return "Fraction(%d, %d)" % (v.numerator, v.denominator)
    if isinstance(v, dict):
        return "{" + ", ".join("%s: %s" % (pyrepr(k), pyrepr(x)) for k, x in v.items()) + "}"
    if isinstance(v, (list, tuple)):
        body = ", ".join(pyrepr(x) for x in v)
        return ("[%s]" % body) if isinstance(v, list) else ("(%s%s)" % (body, "," if len(v) == 1 else ""))
    return repr(v)
