"""Engine S back-end: total translator from the sympy expressions produced by chempy's own symbolic pipelines
(pyodesys SymbolicSys, pyneqsys, Matrix.rref) to z3 terms over the reals.  Anything outside the supported node
set raises NotImplementedError (=> harness error, never a verdict)."""
import sympy as sp
import z3

from .zsym import uf


class Conv(object):
    def __init__(self):
        self.vars = {}

    def var(self, name):
        if name not in self.vars:
            self.vars[name] = z3.Real(name)
        return self.vars[name]

    def __call__(self, e):
        e = sp.sympify(e)
        if e.is_Symbol:
            return self.var(e.name)
        if e.is_Integer:
            return z3.RealVal(int(e))
        if e.is_Rational:
            return z3.Q(int(e.p), int(e.q))
        if e.is_Float:
            r = sp.Rational(e)  # exact binary value of the Float
            return z3.Q(int(r.p), int(r.q))
        if e.is_Add:
            return z3.Sum([self(a) for a in e.args])
        if e.is_Mul:
            r = self(e.args[0])
            for a in e.args[1:]:
                r = r * self(a)
            return r
        if e.is_Pow:
            b, x = e.args
            if x.is_Integer:
                n = int(x)
                bz = self(b)
                r = z3.RealVal(1)
                for _ in range(abs(n)):
                    r = r * bz
                return r if n >= 0 else 1 / r
            if x.is_Rational and int(x.q) == 2:
                s = uf("sqrt")(self(b))
                n = int(x.p)
                r = z3.RealVal(1)
                for _ in range(abs(n)):
                    r = r * s
                return r if n >= 0 else 1 / r
            if b == sp.E:
                return uf("exp")(self(x))
            return uf("pow", 2)(self(b), self(x))
        if isinstance(e, sp.exp):
            return uf("exp")(self(e.args[0]))
        if isinstance(e, sp.log):
            return uf("log")(self(e.args[0]))
        if isinstance(e, sp.tanh):
            return uf("tanh")(self(e.args[0]))
        if isinstance(e, sp.atanh):
            return uf("atanh")(self(e.args[0]))
        if isinstance(e, sp.Abs):
            a = self(e.args[0])
            return z3.If(a >= 0, a, -a)
        if isinstance(e, sp.Min):
            r = self(e.args[0])
            for a in e.args[1:]:
                az = self(a)
                r = z3.If(az < r, az, r)
            return r
        if isinstance(e, sp.Max):
            r = self(e.args[0])
            for a in e.args[1:]:
                az = self(a)
                r = z3.If(az > r, az, r)
            return r
        if isinstance(e, sp.Piecewise):
            pieces = list(e.args)
            r = None
            for val, cond in reversed(pieces):
                v = self(val)
                if cond is sp.true or cond == True:  # noqa
                    r = v
                else:
                    r = z3.If(self.cond(cond), v, r if r is not None else uf("undefined")(z3.RealVal(0)))
            return r
        if e is sp.zoo or e is sp.nan or e is sp.oo or e is -sp.oo:
            raise NotImplementedError("non-finite sympy value %r" % e)
        if e.is_Number:
            r = sp.Rational(e)
            return z3.Q(int(r.p), int(r.q))
        raise NotImplementedError("s2z: %s (%r)" % (type(e).__name__, e))

    def cond(self, c):
        if c is sp.true:
            return z3.BoolVal(True)
        if c is sp.false:
            return z3.BoolVal(False)
        if isinstance(c, sp.And):
            return z3.And(*[self.cond(a) for a in c.args])
        if isinstance(c, sp.Or):
            return z3.Or(*[self.cond(a) for a in c.args])
        if isinstance(c, sp.Not):
            return z3.Not(self.cond(c.args[0]))
        ops = {sp.Lt: lambda a, b: a < b, sp.Le: lambda a, b: a <= b, sp.Gt: lambda a, b: a > b,
               sp.Ge: lambda a, b: a >= b, sp.Eq: lambda a, b: a == b, sp.Ne: lambda a, b: a != b}
        for k, f in ops.items():
            if isinstance(c, k):
                return f(self(c.args[0]), self(c.args[1]))
        raise NotImplementedError("s2z cond: %r" % (c,))
