"""C06 - (claimed part) the advertised safe explicit-Euler step keeps every concentration inside [0, elemental upper bound].

Engine Z: extra['max_euler_step_cb'] is obtained from a REAL get_odesys call; on the captured instances the numeric
collaborators are replaced by stubs (odesys.to_arrays / pre_process = identity, odesys.f_cb = arbitrary reals f_i,
rsys.upper_conc_bounds = the real method called with dtype=object so that symbolic concentrations pass through).  z3 proves,
on every path, 0 <= h <= 1 and 0 <= y_i + h*f_i <= ub_i for ALL y >= 0 and ALL derivative vectors f.
Everything else in C06 (accuracy of LSODA/CVODE integration against exact solutions) is not applicable to this technique.
"""
import time
from fractions import Fraction

import z3

from vlib import env, gen
from vlib.zrun import twin_verdict, wrapper_exc, explore_and_prove, eq_term, concretize, pyrepr
from vlib.zsym import Real, SymNum, SymTypeError, lift, model_value

META = {
    "level": "other",
    "explanation": "bounded symbolic verification of the advertised Euler step only: the real closure returned by get_odesys is executed "
                   "with a symbolic state y >= 0 and the derivative N^T r for ARBITRARY non-negative reaction rates r (a superset of the "
                   "mass-action right-hand side: r_j = 0 whenever a reactant of reaction j is absent); z3 proves 0 <= h <= 1 and that the step "
                   "keeps every concentration in [0, elemental upper bound], the bound being written independently from the compositions "
                   "(total_e / atoms_e for every element of the species) - for the answer to a query that follows an earlier query of the "
                   "same callback and for the same query repeated on the caller's own array, which must be left as supplied",
    "bounds": {"quick": "24 systems with <= 5 substances, incl. species without composition",
               "thorough": "90 systems with <= 5 substances (6-substance systems hit solver timeouts on single paths and were dropped)"},
    "assumptions": [
        "stubs on fresh instances per path: odesys.to_arrays/pre_process pass-through (an ndarray is handed on unchanged, like the real "
        "conversion), odesys.f_cb returns N^T r (division by a zero derivative follows numpy float64 semantics, as for the arrays the real "
        "callback returns), rsys.upper_conc_bounds(y) -> the real method with dtype=object",
        "integration accuracy vs matrix exponentials / closed forms, non-negativity of integrated trajectories: delegated to "
        "LSODA/CVODE through pyodesys - not applicable (no symbolic value survives the C boundary)",
    ],
    "outside": ["all integration accuracy claims of C06", "text input -> result arrays pipeline"],
    "trusted_base": ["z3 5.1", "vlib/zsym.py"],
}

DEADLINE = [400]
EXTRA = [["e-(aq) + OH -> OH-", "e-(aq) + H+ -> H", "H + OH -> H2O"], ["e-(aq) + H+ -> H"], ["e-(aq) + OH -> OH-", "OH + OH -> H2O2"]]

REPLAY = '''
from chempy import ReactionSystem, Substance
from chempy.kinetics.ode import get_odesys
import numpy as np
rxn_strs = %(rxns)r
y = %(y)s
f = %(f)s
soft = %(soft)r
bad = []


def run(yv, fv):
    rsys = ReactionSystem.from_string("\\n".join(s + "; 1" for s in rxn_strs), substance_factory=Substance.from_formula)
    odesys, extra = get_odesys(rsys)
    names = list(rsys.substances)
    calls = []
    def f_stub(*a, **k):   # stub stated in the obligation: arbitrary derivative vector (numpy array, as the real callback returns)
        calls.append(1)
        return np.array([float((-1) ** i * (i + 1)) for i in range(len(names))]) if len(calls) == 1 else np.array(fv)
    odesys.f_cb = f_stub
    cb = extra["max_euler_step_cb"]
    try:   # history: earlier queries of the same callback for another state, integer-valued (a list) and as a mapping
        cb(0, [3 + i for i in range(len(names))])
        cb(0, dict(zip(names, [3.0 + i for i in range(len(names))])))
    except Exception as e:
        bad.append("an earlier query for the state 3, 4, 5, ... raised %%r" %% (e,)); return
    arr = np.array(yv, dtype=float)
    h1 = cb(0, arr)                                # the query, state given as the caller's own array
    h2 = cb(0, arr)                                # and once more on the same array
    if list(arr) != list(yv): bad.append("y=%%s: the queries changed the caller's state array to %%s (an integration started from it would begin elsewhere)" %% (yv, list(arr)))
    tot = {}
    for n, yi in zip(names, yv):
        for e, a in rsys.substances[n].composition.items():
            if e != 0: tot[e] = tot.get(e, 0.0) + a * yi
    ub = [min([tot[e] / a for e, a in rsys.substances[n].composition.items() if e != 0] or [float("inf")]) for n in names]   # independent of upper_conc_bounds
    for label, h in (("first query", h1), ("repeated query on the same array", h2)):
        if not (h == h and 0 <= h <= 1): bad.append("y=%%s f=%%s %%s: h = %%r outside [0, 1]" %% (yv, fv, label, h))
        for n, yi, fi, u in zip(names, yv, fv, ub):
            new = yi + h * fi
            if new < -1e-12 * max(1, abs(yi)) or new > u * (1 + 1e-12) + 1e-300:
                bad.append("y=%%s f=%%s %%s: %%s: %%r + h*%%r = %%r outside [0, %%r]" %% (yv, fv, label, n, yi, fi, new, u))
    print("h =", h1, h2)


names0 = list(ReactionSystem.from_string("\\n".join(s + "; 1" for s in rxn_strs), substance_factory=Substance.from_formula).substances)
points = [([float(y[n]) for n in names0], [float(f[n]) for n in names0])]
if soft:   # the candidate came from a path the number wrapper could not carry: also look at two generic points (witness search)
    n_ = len(names0)
    rs0 = ReactionSystem.from_string("\\n".join(s + "; 1" for s in rxn_strs), substance_factory=Substance.from_formula)
    def ntr(rates):   # derivative N^T r for generic non-negative reaction rates
        return [sum((rx.prod.get(n, 0) + rx.inact_prod.get(n, 0) - rx.reac.get(n, 0) - rx.inact_reac.get(n, 0)) * rj for rx, rj in zip(rs0.rxns, rates)) for n in names0]
    points.append(([0.3 + 0.2 * i for i in range(n_)], ntr([0.5 + j for j in range(rs0.nr)])))
    points.append(([1.5 - 0.1 * i for i in range(n_)], ntr([2.0 + 0.5 * j for j in range(rs0.nr)])))
    seed_ = 12345
    def nxt():
        global seed_
        seed_ = (1103515245 * seed_ + 12345) %% 2 ** 31
        return seed_ / 2.0 ** 31
    for _ in range(40):   # deterministic pseudo-random states (some species absent) and rates
        yv_ = [0.0 if nxt() < 0.3 else round(2 * nxt(), 3) for _i in range(n_)]
        rates_ = [round(3 * nxt(), 3) for _j in range(rs0.nr)]
        for j_, rx in enumerate(rs0.rxns):
            if any(yv_[names0.index(k)] == 0 for k in rx.reac): rates_[j_] = 0.0
        points.append((yv_, ntr(rates_)))
for yv, fv in points:
    run(yv, fv)
for b in bad[:8]: print("MISMATCH", b)
sys.exit(1 if bad else 0)
'''


def task_euler(systems, deadline=400):
    DEADLINE[0] = deadline
    return _task_euler(systems)


def _task_euler(systems):
    from chempy import ReactionSystem, Substance
    from chempy.kinetics.ode import get_odesys

    res = dict(engine="Z", functions=[env.describe(get_odesys), env.describe(ReactionSystem.upper_conc_bounds)], obligations=0, discharged=0,
               violations=[], inconclusive=[], queries=0, paths=0, solver_s=0.0, bounds="%d systems; all y >= 0, derivative N^T r for all r >= 0" % len(systems))
    tw = None
    import numpy as np

    for rxn_strs in systems:
        text = "\n".join(s + "; 1" for s in rxn_strs)
        rsys0 = ReactionSystem.from_string(text, substance_factory=Substance.from_formula)
        if get_odesys(rsys0)[1]["max_euler_step_cb"] is None:
            res["inconclusive"].append("no max_euler_step_cb for %s" % rxn_strs)
            continue
        names = list(rsys0.substances)
        y = [Real("y_%d" % i) for i in range(len(names))]
        # the derivative is N^T r for ARBITRARY non-negative reaction rates r (a superset of what the mass-action right-hand side can
        # produce: each r_j vanishes when one of its reactants is absent); N is read from the reaction dictionaries
        r_ = [Real("r_%d" % j) for j in range(rsys0.nr)]
        Nmat = [[rx.prod.get(n, 0) + rx.inact_prod.get(n, 0) - rx.reac.get(n, 0) - rx.inact_reac.get(n, 0) for n in names] for rx in rsys0.rxns]
        f = [sum(Nmat[j][i] * r_[j] for j in range(rsys0.nr)) for i in range(len(names))]
        f = [v if isinstance(v, SymNum) else SymNum(lift(v)) for v in f]
        assum = [v.t >= 0 for v in y] + [v.t >= 0 for v in r_]
        for j, rx in enumerate(rsys0.rxns):
            for n in rx.reac:
                assum.append(z3.Implies(y[names.index(n)].t == 0, r_[j].t == 0))

        def fn():
            # fresh objects on every path (nothing a previous path left in a closure or on the system can leak into this one)
            rsys = ReactionSystem.from_string(text, substance_factory=Substance.from_formula)
            odesys, extra = get_odesys(rsys)
            cb = extra["max_euler_step_cb"]
            real_ub = rsys.upper_conc_bounds
            # stubs: pyodesys' float conversion is replaced by a pass-through that, like the real one, hands an ndarray on unchanged
            odesys.to_arrays = lambda x_, y_, p_=(): ([x_], y_ if isinstance(y_, np.ndarray) else list(y_), list(p_))
            odesys.pre_process = lambda x_, y_, p_=(): (x_, y_, p_)
            calls = []

            def f_stub(*a, **k):
                calls.append(1)
                if len(calls) == 1:
                    return np.array([(-1) ** i * (i + 1) for i in range(len(names))], dtype=object)  # the earlier query: concrete derivative
                return np.array(f, dtype=object)

            odesys.f_cb = f_stub
            rsys.upper_conc_bounds = lambda yy, **kw: real_ub(yy, dtype=object, **kw)
            # history: the same callback was asked before for another, concrete state (3, 4, 5, ...: no symbolic decisions), then it is
            # asked for y with the caller's own array, twice; every answer must be a safe step for y
            cb(0, [3 + i for i in range(len(names))])
            arr = np.array(y, dtype=object)
            h1 = cb(0, arr)
            h2 = cb(0, arr)
            return (h1, h2), list(arr)

        # the elemental upper bound written independently from the compositions (NOT taken from upper_conc_bounds, which is code under test):
        # y_i <= total_e / atoms_e for every element e of species i
        comps = [{e: a for e, a in rsys0.substances[n].composition.items() if e != 0} for n in names]
        elems = sorted(set().union(*[set(d) for d in comps])) if comps else []
        tot = {e: sum(comps[i][e] * y[i] for i in range(len(names)) if e in comps[i]) for e in elems}

        def goal(p, twin=False):
            if p.kind == "exc":
                return False
            hs, after = p.value
            # the caller's state array is what an integration started next would begin from: the queries leave it as supplied
            conds = [eq_term(a_, b_) for a_, b_ in zip(after, y)]
            for h in hs:
                ht = lift(h)
                if ht is None:
                    return False  # h is not a finite number (inf / nan): the step is useless or unsafe
                conds += [ht >= 0, ht <= (1 if not twin else z3.Q(1, 2))]
                for i_, (yi, fi) in enumerate(zip(y, f)):
                    new = yi.t + ht * fi.t
                    conds.append(new >= 0)
                    for e, a in comps[i_].items():
                        conds.append(new * a <= lift(tot[e]))
            return z3.And(*conds)

        o = explore_and_prove(fn, assum, goal, max_paths=200000, deadline_s=DEADLINE[0], timeout_ms=30000, numpy_div=True)
        res["obligations"] += o.obligations
        res["discharged"] += o.discharged
        res["queries"] += o.queries
        res["paths"] += o.paths
        res["solver_s"] += o.solver_s
        res["inconclusive"] += o.inconclusive
        for p, m, g in o.failed[:1]:
            yv = dict(zip(names, concretize(m, y)))
            fv = dict(zip(names, concretize(m, f)))  # N^T r at the model's rates
            res["violations"].append(dict(key="euler_step:%s" % p.kind, soft=wrapper_exc(p.value), desc="system %s y=%s f=%s -> %r" % (rxn_strs, yv, fv, p.value),
                                          replay_src=REPLAY % dict(rxns=rxn_strs, y=pyrepr(yv), f=pyrepr(fv), soft=bool(wrapper_exc(p.value)))))
        if tw is None:
            ot = explore_and_prove(fn, assum, lambda p: goal(p, True), max_paths=60000, deadline_s=60, max_fail=1, numpy_div=True)
            tw = twin_verdict(ot)
    res["twin"] = tw or "n/a"
    res["sample"] = {"system": systems[0], "state": "symbolic y >= 0", "derivative": "N^T r, r >= 0 symbolic"}
    res["status"] = "violation" if res["violations"] else ("inconclusive" if res["inconclusive"] else "discharged")
    return res


def tasks(tier, seed):
    from chempy import ReactionSystem, Substance

    maxn = 5
    cand = EXTRA + gen.kin_systems(tier, seed)
    systems = []
    for s in cand:
        try:
            rs = ReactionSystem.from_string("\n".join(x + "; 1" for x in s), substance_factory=Substance.from_formula)
        except Exception:
            continue
        if rs.ns <= maxn and s not in systems:
            systems.append(s)
    systems = systems[: (24 if tier == "quick" else 90)]
    n = min(len(systems), 12 if tier == "quick" else 16)
    return [dict(id="C06.euler.%02d" % i, fn="task_euler", kwargs=dict(systems=systems[i::n], deadline=400 if tier == "quick" else 900), timeout=2400 if tier == "quick" else 4000) for i in range(n)]
