"""C03 - mass-action rate of each substance is net stoichiometry times k*prod(c^nu).

Engine Z: the real Reaction / MassAction / ReactionSystem.rates / law_of_mass_action_rates / dCdt_list code is
executed with z3-backed concentrations, rate constants and feed terms (reals) and z3-backed stoichiometric
coefficients (ints, bounded); `c ** nu` with symbolic nu forks over nu's range.  On every path z3 proves that
each returned entry equals the oracle written from the statement.
"""
import itertools
import random
import time
from fractions import Fraction

import z3

from vlib import env
from vlib.zrun import twin_verdict, explore_and_prove, all_eq, concretize, pyrepr, eq_term, wrapper_exc
from vlib.zsym import Int, Real, Sym, SymNum, sym_int, model_value

META = {
    "level": "other",
    "explanation": "bounded symbolic verification (z3 duck typing + forking over the real chempy code): for every "
                   "reaction structure within the bounds, every returned rate entry is proved equal to the statement's "
                   "formula for ALL real concentrations / rate constants / feed terms and all coefficient values in "
                   "the stated integer range",
    "bounds": {
        "quick": "dense: 1 reaction x 3 keys, 12 coefficients each symbolic in 0..2; 2 reactions x 2 keys, 16 coefficients "
                 "symbolic in 0..2 (+CSTR, array route, permutation); structural: every presence pattern of 2 keys in the four "
                 "stoichiometry dicts (256) with symbolic coefficients 1..3; seeded 3-key two-reaction patterns; three large structures with unit coefficients (one species in 9 / 17 reactions, 26 reactions one of them with inactive parts)",
        "thorough": "dense: 1 reaction x 3 keys coefficients 0..3; 2 reactions x 3 keys 0..2; structural: all 4096 patterns of "
                    "3 keys; 400 seeded two-/three-reaction patterns over 4 keys",
    },
    "assumptions": [
        "identities over the reals (float rounding outside the claim); concentrations/k arbitrary reals",
        "stub: chempy.chemistry.int is replaced by an identity on integer-sorted symbols (check_all_integral's int(v))",
        "stub: chempy.util.stoich.np.zeros(dtype=int) returns an object array so symbolic ints can be stored (get_coeff_mtx)",
        "coefficients outside the stated integer range, non-integer coefficients, RateExpr params other than plain / named "
        "mass action are outside this check (C16 covers rate expressions)",
    ],
    "outside": ["float rounding", "coefficients > 3", "systems with > 3 reactions"],
    "trusted_base": ["z3 5.1", "vlib/zsym.py number wrapper"],
}

ORACLE_SRC = '''
def oracle_rate(rx, k, conc, keys):
    """rx = (reac, prod, inact_reac, inact_prod) dicts. Statement: (prod - reac, counting inactive) * k * prod(c^nu_active)"""
    reac, prod, ireac, iprod = rx
    r = k
    for key in sorted(reac):
        r = r * conc[key] ** reac[key]
    return {key: (prod.get(key, 0) - reac.get(key, 0) + iprod.get(key, 0) - ireac.get(key, 0)) * r for key in keys}


def oracle_rates(rxs, ks, conc, keys, cstr=None):
    tot = {key: 0 for key in keys}
    for rx, k in zip(rxs, ks):
        rk = set()
        for d in rx:
            rk |= set(d)
        for key, v in oracle_rate(rx, k, conc, [x for x in keys if x in rk]).items():
            tot[key] = tot[key] + v
    if cstr:
        F, feeds = cstr
        for key in keys:
            if key in feeds:
                tot[key] = tot[key] + F * (feeds[key] - conc[key])
    return tot
'''
exec(ORACLE_SRC)
DEADLINE = 240


def _inject():
    import chempy.chemistry as cc

    cc.int = sym_int


def _mk_rx(pattern, prefix, lo, hi, assum):
    """pattern: tuple of 4 tuples of keys (reac, prod, ireac, iprod). Returns dicts with fresh symbolic ints"""
    out = []
    for name, keys in zip(("r", "p", "ir", "ip"), pattern):
        d = {}
        for key in keys:
            v = Int("%s_%s_%s" % (prefix, name, key))
            assum += [v.t >= lo, v.t <= hi]
            d[key] = v
        out.append(d)
    return tuple(out)


REPLAY = '''
from chempy import Reaction, ReactionSystem
from chempy.kinetics.ode import law_of_mass_action_rates, dCdt_list
%(oracle)s
mode = %(mode)r
rxs = %(rxs)s
ks = %(ks)s
conc = %(conc)s
keys = %(keys)r
cstr = %(cstr)s
checks = %(checks)r
kw = {} if checks is None else {"checks": checks}
rxns = [Reaction(rx[0], rx[1], k, inact_reac=rx[2], inact_prod=rx[3], **kw) for rx, k in zip(rxs, ks)]
bad = []
if mode == "rate":
    got = rxns[0].rate(conc, substance_keys=keys)
    exp = oracle_rate(rxs[0], ks[0], conc, keys)
    for key in keys:
        if got[key] != exp[key]:
            bad.append(("Reaction.rate", key, got[key], exp[key]))
    import numpy as np
    arrv = {kk: np.array([vv], dtype=object) for kk, vv in conc.items()}
    ga1 = rxns[0].rate(arrv, substance_keys=keys); ga2 = rxns[0].rate(arrv, substance_keys=keys)
    for key in keys:
        f1 = ga1[key][0] if hasattr(ga1[key], "__len__") else ga1[key]
        f2 = ga2[key][0] if hasattr(ga2[key], "__len__") else ga2[key]
        if f1 != exp[key] or f2 != exp[key]:
            bad.append(("Reaction.rate with array-valued concentrations (1st, 2nd evaluation)", key, (f1, f2), exp[key]))
    for kk in conc:
        if arrv[kk][0] != conc[kk]:
            bad.append(("caller's variables were modified", kk, arrv[kk][0], conc[kk]))
    rxns[0].param = ks[0] + 1  # the object is mutable: a later evaluation uses the constant it has then
    got = rxns[0].rate(conc, substance_keys=keys)
    exp = oracle_rate(rxs[0], ks[0] + 1, conc, keys)
    for key in keys:
        if got[key] != exp[key]:
            bad.append(("Reaction.rate after param reassignment", key, got[key], exp[key]))
else:
    rsys = ReactionSystem(rxns, keys, checks=())
    variables = dict(conc)
    cfc = None
    if cstr:
        variables["F"] = cstr[0]
        for key, v in cstr[1].items():
            variables["fc_" + key] = v
        cfc = ("F", {key: "fc_" + key for key in cstr[1]})
    got = rsys.rates(variables, cstr_fr_fc=cfc)
    exp = oracle_rates(rxs, ks, conc, keys, cstr)
    for key in keys:
        if got.get(key, 0) != exp[key]:
            bad.append(("ReactionSystem.rates", key, got.get(key, 0), exp[key]))
    exp0 = oracle_rates(rxs, ks, conc, keys)
    got0 = rsys.rates(dict(conc))
    for key in keys:
        if got0.get(key, 0) != exp0[key]:
            bad.append(("ReactionSystem.rates(no cstr)", key, got0.get(key, 0), exp0[key]))
    arr = dCdt_list(rsys, list(law_of_mass_action_rates([conc[key] for key in keys], rsys, {})))
    for key, v in zip(keys, arr):
        if v != exp0[key]:
            bad.append(("dCdt_list", key, v, exp0[key]))
    rs2 = ReactionSystem(rxns[::-1], keys, checks=())
    g2 = rs2.rates(dict(conc))
    for key in keys:
        if g2.get(key, 0) != exp0[key]:
            bad.append(("permutation", key, g2.get(key, 0), exp0[key]))
    gg = ReactionSystem((rx_ for rx_ in rxns), checks=()).rates(dict(conc))
    for key in gg:
        if gg[key] != exp0[key]: bad.append(("rates of a system built from a generator of reactions", key, gg[key], exp0[key]))
    if set(gg) != set(k_ for k_ in keys if any(k_ in d for rx_ in rxs for d in rx_)): bad.append(("system built from a generator", "substances", sorted(gg), "all species of the reactions"))
    gk = rsys.rates(dict(conc), substance_keys=list(keys))
    for key in keys:
        if gk.get(key, "missing") != exp0[key]:
            bad.append(("ReactionSystem.rates(substance_keys=...)", key, gk.get(key, "missing"), exp0[key]))
    arr2 = dCdt_list(rsys, list(law_of_mass_action_rates([conc[key] for key in keys], rsys, {key: conc[key] + 1 for key in keys})))
    for key, v in zip(keys, arr2):
        if v != exp0[key]:
            bad.append(("dCdt_list with a variables mapping holding other numbers under the substance keys", key, v, exp0[key]))
    import numpy as np
    varr = {kk: np.array([vv], dtype=object) for kk, vv in conc.items()}
    ga = rsys.rates(dict(varr))
    for key in keys:
        v = ga.get(key, 0)
        v = v[0] if hasattr(v, "__len__") else v
        if v != exp0[key]:
            bad.append(("ReactionSystem.rates with array-valued concentrations", key, v, exp0[key]))
    for kk in conc:
        if varr[kk][0] != conc[kk]:
            bad.append(("caller's arrays were modified", kk, varr[kk][0], conc[kk]))
for b in bad:
    print("MISMATCH %%s key=%%s got=%%s expected=%%s" %% b)
sys.exit(1 if bad else 0)
'''


def _replay_src(mode, rxs, ks, conc, keys, cstr, checks, m, generic=False):
    crx = [tuple(concretize(m, d) for d in rx) for rx in rxs]
    cks = concretize(m, ks)
    cconc = concretize(m, conc)
    if generic:
        # the path left the symbolic domain (wrapper exception): the solver's values were never constrained by the code, so the witness
        # is a generic point instead (distinct positive concentrations and rate constants; nothing vanishes by accident)
        cks = [Fraction(j + 2) for j in range(len(cks))]
        cconc = {k_: Fraction(i + 2, 3) for i, k_ in enumerate(cconc)}
    ccstr = None
    if cstr:
        ccstr = (model_value(m, cstr[0].t), concretize(m, cstr[1]))
    return REPLAY % dict(oracle=ORACLE_SRC, mode=mode, rxs=pyrepr(crx), ks=pyrepr(cks), conc=pyrepr(cconc), keys=list(keys),
                         cstr=pyrepr(ccstr), checks=checks), crx


def ob_single(pattern, keys, lo, hi, checks, seed=0, twin=False):
    """one reaction: Reaction.rate for requested keys (incl. a key on neither side)"""
    from chempy import Reaction
    from chempy.kinetics.rates import MassAction

    _inject()
    assum = []
    rx = _mk_rx(pattern, "x", lo, hi, assum)
    conc = {key: Real("c_" + key) for key in keys}
    k = Real("k")
    ask = list(keys)
    holder = {}

    def fn():
        kw = {} if checks is None else {"checks": checks}
        rxn = Reaction(dict(rx[0]), dict(rx[1]), k, inact_reac=dict(rx[2]), inact_prod=dict(rx[3]), **kw)
        got = rxn.rate(conc, substance_keys=ask)
        # same reaction with a named parameter looked up in the variables
        rxn2 = Reaction(dict(rx[0]), dict(rx[1]), "kname", inact_reac=dict(rx[2]), inact_prod=dict(rx[3]), **kw)
        v2 = dict(conc)
        v2["kname"] = k
        got2 = rxn2.rate(v2, substance_keys=ask)
        # history with mutable concentration objects (numpy arrays): evaluating twice must give the same rates and must not
        # write into the caller's variables
        import numpy as np
        arrv = {kk: np.array([vv], dtype=object) for kk, vv in conc.items()}
        ga1 = rxn.rate(arrv, substance_keys=ask)
        ga2 = rxn.rate(arrv, substance_keys=ask)
        arr_state = (ga1, ga2, arrv)
        rxn.param = k + 1
        got3 = rxn.rate(conc, substance_keys=ask)
        exp3 = oracle_rate(rx, k + 1, conc, ask)
        exp = oracle_rate(rx, k, conc, ask)
        if twin:
            exp = oracle_rate((dict(rx[0], **{kk: rx[0].get(kk, 0) + v for kk, v in rx[2].items()}), rx[1], rx[2], rx[3]), k, conc, ask)
        return got, got2, exp, got3, exp3, arr_state

    def goal(p):
        if p.kind == "exc":
            e = p.value
            if isinstance(e, ValueError) and "net stoichiometry change" in str(e):
                # any_effect refusal: legitimate only if every net coefficient is zero
                allk = set().union(*[set(d) for d in rx])
                nets = [rx[1].get(kk, 0) - rx[0].get(kk, 0) + rx[3].get(kk, 0) - rx[2].get(kk, 0) for kk in allk]
                return all_eq([(n, 0) for n in nets])
            holder["exc"] = repr(e)
            return False
        got, got2, exp, got3, exp3, (ga1, ga2, arrv) = p.value
        if set(got) != set(ask) or set(got2) != set(ask) or set(got3) != set(ask):
            return False

        def first(v):
            return v[0] if hasattr(v, "__len__") else v
        return z3.And(all_eq([(got[kk], exp[kk]) for kk in ask]), all_eq([(got2[kk], exp[kk]) for kk in ask]),
                      all_eq([(got3[kk], exp3[kk]) for kk in ask]), all_eq([(first(ga1[kk]), exp[kk]) for kk in ask]),
                      all_eq([(first(ga2[kk]), exp[kk]) for kk in ask]), all_eq([(arrv[kk][0], conc[kk]) for kk in conc]))

    o = explore_and_prove(fn, assum, goal, max_paths=20000, deadline_s=DEADLINE)
    return o, (rx, k, conc, ask, holder)


def _viol(o, mode, rxs, ks, conc, keys, cstr, checks, obid):
    vs = []
    for p, m, g in o.failed[:3]:
        src, crx = _replay_src(mode, rxs, ks, conc, keys, cstr, checks, m, generic=(p.kind == "exc" and wrapper_exc(p.value)))
        vs.append(dict(key="%s:%s" % (obid, "exc" if p.kind == "exc" else "value"),
                       desc="%s: structure %s ks=%s conc=%s%s" % (mode, crx, concretize(m, ks), concretize(m, conc),
                                                                  (" raised %r" % (p.value,)) if p.kind == "exc" else ""),
                       soft=(p.kind == "exc" and wrapper_exc(p.value)), replay_src=src))
    return vs


def task_single(patterns, keys, lo, hi, checks, label, seed=0):
    from chempy import Reaction
    from chempy.kinetics.rates import MassAction

    t0 = time.time()
    res = dict(engine="Z", functions=[env.describe(Reaction.rate), env.describe(Reaction.net_stoich), env.describe(Reaction.rate_expr),
                                      env.describe(MassAction.__call__), env.describe(MassAction.active_conc_prod)],
               obligations=0, discharged=0, violations=[], inconclusive=[], queries=0, paths=0, solver_s=0.0,
               bounds="%d pattern(s) over keys %s, coefficients %d..%d, checks=%s" % (len(patterns), keys, lo, hi, checks))
    tw = None
    for pi, pattern in enumerate(patterns):
        o, (rx, k, conc, ask, holder) = ob_single(pattern, keys, lo, hi, checks, seed)
        res["obligations"] += o.obligations
        res["discharged"] += o.discharged
        res["queries"] += o.queries
        res["paths"] += o.paths
        res["solver_s"] += o.solver_s
        res["inconclusive"] += o.inconclusive
        res["violations"] += _viol(o, "rate", [rx], [k], conc, ask, None, checks, "single")
        if tw is None and pattern[0] and pattern[2]:
            ot, _ = ob_single(pattern, keys, lo, hi, checks, seed, twin=True)
            tw = twin_verdict(ot)
    res["twin"] = tw or "n/a"
    res["sample"] = {"pattern(reac,prod,inact_reac,inact_prod)": patterns[0], "keys": keys, "coefficients": "symbolic %d..%d" % (lo, hi)}
    res["status"] = "violation" if res["violations"] else ("inconclusive" if res["inconclusive"] else "discharged")
    return res


def ob_system(patterns, keys, lo, hi, cstr_keys, twin=False):
    from chempy import Reaction, ReactionSystem
    from chempy.kinetics.ode import law_of_mass_action_rates, dCdt_list
    import chempy.util.stoich as stoich
    import numpy as np

    _inject()
    assum = []
    rxs = [_mk_rx(pt, "x%d" % i, lo, hi, assum) for i, pt in enumerate(patterns)]
    conc = {key: Real("c_" + key) for key in keys}
    ks = [Real("k%d" % i) for i in range(len(rxs))]
    F = Real("F")
    feeds = {key: Real("fc_" + key) for key in cstr_keys}

    class NPShim(object):
        def __getattr__(self, n):
            return getattr(np, n)

        @staticmethod
        def zeros(shape, dtype=None):
            return np.zeros(shape, dtype=object)

    def fn():
        rxns = [Reaction(dict(rx[0]), dict(rx[1]), k, inact_reac=dict(rx[2]), inact_prod=dict(rx[3]), checks=())
                for rx, k in zip(rxs, ks)]
        rsys = ReactionSystem(rxns, list(keys), checks=())
        variables = dict(conc)
        got = rsys.rates(variables)
        variables["F"] = F
        for key, v in feeds.items():
            variables["fc_" + key] = v
        gotc = rsys.rates(variables, cstr_fr_fc=("F", {key: "fc_" + key for key in feeds})) if feeds else None
        arr = dCdt_list(rsys, list(law_of_mass_action_rates([conc[key] for key in keys], rsys, {})))
        # optional arguments: an explicit key list for the system's rates (same numbers, those keys), and a `variables` mapping for the
        # array form that happens to hold OTHER numbers under the substance keys (the concentrations given positionally are the state)
        gotk = rsys.rates(dict(conc), substance_keys=list(keys))
        # the same reactions handed over as a one-shot iterable, substances deduced: still the sum over ALL reactions
        gotg = ReactionSystem((rx_ for rx_ in rxns), checks=()).rates(dict(conc))
        stale = {key: conc[key] + 1 for key in keys}
        arr2 = dCdt_list(rsys, list(law_of_mass_action_rates([conc[key] for key in keys], rsys, stale)))
        opt_state = (gotk, arr2, gotg)
        rs2 = ReactionSystem(rxns[::-1], list(keys), checks=())
        gotp = rs2.rates(dict(conc))
        # array-valued concentrations (a batch of states): the per-reaction contributions are accumulated per substance; mutable
        # values must not be shared between substances or written back into the caller's arrays
        varr = {key: np.array([v], dtype=object) for key, v in conc.items()}
        gota = rsys.rates(dict(varr))
        arr_state = (gota, varr)
        old = stoich.np
        stoich.np = NPShim()
        try:
            mtx = stoich.get_coeff_mtx(list(keys), [(r.reac, r.prod) for r in rxns])
        finally:
            stoich.np = old
        mats = dict(net=rsys.net_stoichs(), ar=rsys.all_reac_stoichs(), acr=rsys.active_reac_stoichs(),
                    ap=rsys.all_prod_stoichs(), acp=rsys.active_prod_stoichs(), coeff=mtx)
        kk = ks if not twin else ([ks[0]] + [2 * x for x in ks[1:]] if len(ks) > 1 else [ks[0] + 1])
        exp = oracle_rates(rxs, kk, conc, keys)
        expc = oracle_rates(rxs, kk, conc, keys, (F, feeds)) if feeds else None
        return got, gotc, arr, gotp, mats, exp, expc, arr_state, opt_state

    def goal(p):
        if p.kind == "exc":
            return False
        got, gotc, arr, gotp, mats, exp, expc, (gota, varr), (gotk, arr2, gotg) = p.value
        pairs = []
        present = set()
        for rx in rxs:
            for d in rx:
                present |= set(d)
        if set(got) != present or set(gotp) != present:
            return False
        for key in keys:
            pairs.append((got.get(key, 0), exp[key]))
            pairs.append((gotp.get(key, 0), exp[key]))
        for key, v in zip(keys, arr):
            pairs.append((v, exp[key]))
        if set(gotk) != set(keys) or set(gotg) != present:
            return False
        for key in present:
            pairs.append((gotg[key], exp[key]))
        for key, v in zip(keys, arr2):
            pairs.append((v, exp[key]))
            pairs.append((gotk[key], exp[key]))
        for key in keys:
            v = gota.get(key, 0)
            pairs.append((v[0] if hasattr(v, "__len__") else v, exp[key]))
            pairs.append((varr[key][0], conc[key]))
        if gotc is not None:
            for key in keys:
                pairs.append((gotc.get(key, 0), expc[key]))
        for ri, rx in enumerate(rxs):
            for si, key in enumerate(keys):
                r_, p_, ir_, ip_ = (d.get(key, 0) for d in rx)
                pairs += [(mats["net"][ri, si], p_ - r_ + ip_ - ir_), (mats["ar"][ri, si], r_ + ir_), (mats["acr"][ri, si], r_),
                          (mats["ap"][ri, si], p_ + ip_), (mats["acp"][ri, si], p_), (mats["coeff"][si, ri], p_ - r_)]
        return all_eq(pairs)

    o = explore_and_prove(fn, assum, goal, max_paths=50000, deadline_s=DEADLINE)
    return o, (rxs, ks, conc, (F, feeds) if feeds else None)


def task_system(pattern_sets, keys, lo, hi, label, seed=0):
    from chempy import ReactionSystem
    from chempy.kinetics import ode
    from chempy.util import stoich

    res = dict(engine="Z", functions=[env.describe(ReactionSystem.rates), env.describe(ReactionSystem._stoichs),
                                      env.describe(ode.law_of_mass_action_rates), env.describe(ode.dCdt_list),
                                      env.describe(stoich.get_coeff_mtx)],
               obligations=0, discharged=0, violations=[], inconclusive=[], queries=0, paths=0, solver_s=0.0,
               bounds="%d system(s) over keys %s, coefficients %d..%d" % (len(pattern_sets), keys, lo, hi))
    tw = None
    for patterns in pattern_sets:
        present = set()
        for pt in patterns:
            for d in pt:
                present |= set(d)
        cstr_keys = [k for k in keys if k in present][:2]
        o, (rxs, ks, conc, cstr) = ob_system(patterns, keys, lo, hi, cstr_keys)
        res["obligations"] += o.obligations
        res["discharged"] += o.discharged
        res["queries"] += o.queries
        res["paths"] += o.paths
        res["solver_s"] += o.solver_s
        res["inconclusive"] += o.inconclusive
        res["violations"] += _viol(o, "rates", rxs, ks, conc, keys, cstr, (), "system")
        if tw is None and any(pt[0] or pt[1] for pt in patterns):
            ot, _ = ob_system(patterns, keys, lo, hi, cstr_keys, twin=True)
            tw = twin_verdict(ot)
    res["twin"] = tw or "n/a"
    res["sample"] = {"reactions(reac,prod,inact_reac,inact_prod key sets)": pattern_sets[0], "keys": keys,
                     "coefficients": "symbolic %d..%d" % (lo, hi), "also": "CSTR feed, array route, reversed order, 6 stoichiometry matrices"}
    res["status"] = "violation" if res["violations"] else ("inconclusive" if res["inconclusive"] else "discharged")
    return res


def all_patterns(keys):
    """every assignment of each key to a subset of the four dicts"""
    pats = []
    for combo in itertools.product(range(16), repeat=len(keys)):
        pats.append(tuple(tuple(k for k, c in zip(keys, combo) if c & (1 << bit)) for bit in range(4)))
    return pats


def chunks(lst, n):
    return [lst[i::n] for i in range(n) if lst[i::n]]


REPLAY_EXACT = '''
from chempy import Reaction, ReactionSystem
from chempy.kinetics.ode import law_of_mass_action_rates, dCdt_list
bad = []
rsys = ReactionSystem([Reaction({"A": 1}, {"B": 1}, 1), Reaction({"B": 1}, {"A": 1}, 1)], "A B")
for conc, exp in (([10 ** 20 + 1, 10 ** 20], [-1, 1]), ([Fraction(10, 63), Fraction(1, 7)], [Fraction(-1, 63), Fraction(1, 63)]), ([3, 1], [-2, 2])):
    arr = dCdt_list(rsys, list(law_of_mass_action_rates(conc, rsys, {})))
    dct = rsys.rates(dict(zip("AB", conc)))
    for key, a_, e_ in zip("AB", arr, exp):
        for label, v in (("dCdt_list", a_), ("rates", dct[key])):
            if v != e_ or isinstance(v, float): bad.append("%s with exact inputs %s: d[%s]/dt = %r, exact value %r" % (label, conc, key, v, e_))
for b in bad: print("MISMATCH", b)
sys.exit(1 if bad else 0)
'''


def task_exact():
    """concrete sanity (NOT solver evidence): python ints and Fractions stay exact through both the dictionary and the array form (the symbolic
    numbers of the other tasks are exact by construction, so a float accumulator start value or a float cast is invisible to them)"""
    import subprocess
    import sys as _sys
    from chempy.kinetics.ode import dCdt_list

    src = "import sys\nsys.path.insert(0, %r)\nfrom fractions import Fraction\n" % env.REPO + REPLAY_EXACT
    r = subprocess.run([_sys.executable, "-c", src], capture_output=True, text=True, timeout=300)
    res = dict(engine="concrete", functions=[env.describe(dCdt_list)], obligations=1, discharged=1 if r.returncode == 0 else 0, violations=[], queries=0,
               twin="n/a", bounds="3 exact inputs (near-cancelling big ints, Fractions, small ints); concrete sanity, not counted as solver evidence",
               sample={"inputs": "[10**20+1, 10**20], Fractions"})
    if r.returncode == 1 and "MISMATCH" in r.stdout:
        res["violations"].append(dict(key="exact_arithmetic", desc="exact inputs lose exactness: %s" % r.stdout[-300:], replay_src=REPLAY_EXACT))
    elif r.returncode != 0:
        res["inconclusive"] = ["exactness sanity could not be evaluated: %s" % r.stderr[-200:]]
    res["status"] = "violation" if res["violations"] else ("inconclusive" if res.get("inconclusive") else "discharged")
    return res


def tasks(tier, seed):
    rnd = random.Random(seed)
    ts = []
    K2, K3, K4 = ["A", "B"], ["A", "B", "C"], ["A", "B", "C", "D"]
    dense3 = (tuple(K3),) * 4
    dense2 = (tuple(K2),) * 4
    hi = 2 if tier == "quick" else 3
    ts.append(dict(id="C03.dense.single.3keys", fn="task_single",
                   kwargs=dict(patterns=[dense3], keys=K3 + ["Z"], lo=0, hi=hi, checks=(), label="dense"), timeout=1500))
    ts.append(dict(id="C03.dense.system.2rx2keys", fn="task_system",
                   kwargs=dict(pattern_sets=[[dense2, dense2]], keys=K2, lo=0, hi=2, label="dense"), timeout=1500))
    if tier == "thorough":
        act3 = (tuple(K3), tuple(K3), ("A",), ("B",))
        ts.append(dict(id="C03.dense.system.2rx3keys", fn="task_system",
                       kwargs=dict(pattern_sets=[[act3, act3]], keys=K3, lo=0, hi=2, label="dense"), timeout=3000))
    # structural, default checks, coefficients 1..3
    pats = all_patterns(K2 if tier == "quick" else K3)
    for i, ch in enumerate(chunks(pats, 8 if tier == "quick" else 32)):
        ts.append(dict(id="C03.struct.single.%02d" % i, fn="task_single",
                       kwargs=dict(patterns=ch, keys=(K2 if tier == "quick" else K3) + ["Z"], lo=1, hi=3, checks=None, label="struct"),
                       timeout=3000))
    # seeded multi-reaction structures
    nsys = 24 if tier == "quick" else 400
    keys = K3 if tier == "quick" else K4
    p3 = all_patterns(keys)
    systems = []
    for _ in range(nsys):
        nr = rnd.choice([2, 2, 3]) if tier == "thorough" else 2
        cand = []
        while len(cand) < nr:
            pt = rnd.choice(p3)
            if pt[0] or pt[1]:
                if sum(len(x) for x in pt) <= 5:
                    cand.append(pt)
        systems.append(cand)
    for i, ch in enumerate(chunks(systems, 8 if tier == "quick" else 32)):
        ts.append(dict(id="C03.struct.system.%02d" % i, fn="task_system",
                       kwargs=dict(pattern_sets=ch, keys=keys, lo=1, hi=2, label="struct"), timeout=3000))
    # LARGE structures (sizes the generated ones never reach): a hub species that takes part in 9 / 17 reactions, and a system of 26
    # reactions one of which has inactive reactants and products; unit coefficients, symbolic concentrations and rate constants
    def hub(n_):
        return [(("H", "A%d" % i), ("P%d" % i,), (), ()) for i in range(n_)]
    big = [(("F%d" % i,), ("G%d" % i,), (), ()) for i in range(25)] + [(("X",), ("Z",), ("Y",), ("W",))]
    for label_, sys_ in (("hub9", hub(9)), ("hub17", hub(17)), ("big26", big)):
        ks_ = sorted(set(k_ for pt in sys_ for grp in pt for k_ in grp))
        ts.append(dict(id="C03.large.%s" % label_, fn="task_system", kwargs=dict(pattern_sets=[sys_], keys=ks_, lo=1, hi=1, label="large"), timeout=3000))
    ts.append(dict(id="C03.exact_arithmetic", fn="task_exact", kwargs={}, timeout=600))
    return ts
