"""C15 - structural queries on a reaction system match its reaction graph (Engine Z)."""
import itertools
import time

import z3

from vlib import env, gen
from vlib.zrun import soft_path, twin_verdict, explore_and_prove, wrapper_exc, all_eq, concretize, pyrepr, eq_term
from vlib.zsym import Ctx, Int, Real, SymBool, SymNum, sym_int, model_value, lift

META = {
    "level": "other",
    "explanation": "bounded symbolic verification with Engine Z: (split/participation) reactions are edges/triples whose end points are "
                   "symbolic indices - every feasible graph within the bound is visited through solver-decided forks and compared with a "
                   "union-find oracle; (categorize/identify_equilibria/per_reaction_effect/subset/+) stoichiometric coefficients are "
                   "symbolic ints and z3 proves the returned sets equal the definitions on every path; (upper_conc_bounds) initial "
                   "concentrations are symbolic reals, z3 (LRA) proves bound = min(total/atoms) and that no non-negative state with the "
                   "same element totals exceeds it",
    "bounds": {
        "quick": "split: g canonical disjoint prefix reactions (g=0..3) + 2-3 symbolic pair/triple reactions over <= 7 keys; categorize: 2 "
                 "reactions x 2 substances, integer coefficients 0..1000; equilibria: 3 reactions x 2 substances and 2 x 3, coefficients 0..1000 "
                 "(the path structure does not depend on the range: decisions are on signs and equalities); bounds: 16 generated systems",
        "thorough": "split: + 4 symbolic reactions over 5 keys, prefix 3 + 3 symbolic; categorize 3 reactions; bounds: 145 systems",
    },
    "assumptions": [
        "split branches on every membership bit, so each path is one concrete graph: the solver guarantees that all feasible graphs "
        "within the bound were visited (bounded exhaustive), values play no role there",
        "as_per_substance_array float coercion and decompose_yields (numpy lstsq) are outside (no symbolic value survives)",
        "stub: Reaction subclass whose keys() are K[symbolic index]; chempy.chemistry.int -> identity on integer symbols",
    ],
    "outside": ["decompose_yields", "float coercion in as_per_substance_array", "systems beyond the stated sizes"],
    "trusted_base": ["z3 5.1", "vlib/zsym.py"],
}

KEYS = list("ABCDEFG")

ORACLE_SRC = '''
def components(keysets):
    """union-find over reactions: returns list of (sorted reaction indices, set of keys) per connected component"""
    parent = list(range(len(keysets)))
    def find(i):
        while parent[i] != i:
            parent[i] = parent[parent[i]]
            i = parent[i]
        return i
    for i in range(len(keysets)):
        for j in range(i):
            if keysets[i] & keysets[j]:
                parent[find(i)] = find(j)
    comp = {}
    for i in range(len(keysets)):
        comp.setdefault(find(i), []).append(i)
    return sorted((sorted(v), set().union(*[keysets[i] for i in v])) for v in comp.values())


def check_split(subs, keysets, all_keys):
    """subs: list of (reaction index list, substance key list) returned by split. Returns list of complaints."""
    bad = []
    exp = components(keysets)
    got = sorted((sorted(r), set(s)) for r, s in subs)
    allr = sorted(i for r, _ in subs for i in r)
    if allr != list(range(len(keysets))):
        bad.append("reaction lists do not partition the reactions: %s" % allr)
    for a in range(len(subs)):
        for b in range(a):
            if set(subs[a][1]) & set(subs[b][1]):
                bad.append("sub-systems share substances %s" % sorted(set(subs[a][1]) & set(subs[b][1])))
    if got != [(r, s) for r, s in exp]:
        bad.append("components differ: got %s expected %s" % (got, exp))
    return bad
'''
exec(ORACLE_SRC)


def _mk_pair_rxn_class():
    from chempy import Reaction

    class IdxRxn(Reaction):
        """reaction whose species are K[i] for (possibly symbolic) indices i; only keys() is meaningful"""

        def __init__(self, idxs, nkeys, tag):
            Reaction.__init__(self, {}, {}, None, checks=())
            self.idxs, self.nkeys, self.tag = idxs, nkeys, tag
            self._cache = (None, None)

        def keys(self):
            c = Ctx.cur
            rid = (id(c), c.run_id) if c is not None else None
            if self._cache[0] == rid and rid is not None:
                return set(self._cache[1])
            ks = set()
            for v in self.idxs:
                if isinstance(v, int):
                    ks.add(KEYS[v])
                    continue
                for j in range(self.nkeys):
                    if v == j:
                        ks.add(KEYS[j])
                        break
            self._cache = (rid, ks)
            return set(ks)

    return IdxRxn


REPLAY_SPLIT = '''
from chempy import Reaction, ReactionSystem
%(oracle)s
keysets = %(keysets)r
all_keys = %(all_keys)r
rxns = [Reaction({k: 1 for k in sorted(ks)[:1]}, {k: 1 for k in sorted(ks)[1:]} or {sorted(ks)[0] + "x": 1}, checks=()) for ks in keysets]
keysets = [set(r.keys()) for r in rxns]
all_keys = sorted(set(all_keys) | set().union(*keysets))
rsys = ReactionSystem(rxns, all_keys, checks=())
subs = [([rsys.rxns.index(r) if False else [i for i, rr in enumerate(rsys.rxns) if rr is r][0] for r in s.rxns], list(s.substances)) for s in rsys.split(checks=())]
bad = check_split(subs, keysets, all_keys)
for k in all_keys:
    if rsys.substance_participation(k) != [i for i, ks in enumerate(keysets) if k in ks]:
        bad.append("substance_participation(%%s) = %%s" %% (k, rsys.substance_participation(k)))
print(keysets, "->", subs)
for b in bad: print("MISMATCH", b)
sys.exit(1 if bad else 0)
'''


def task_split(prefix, nsym, arity, nkeys, deadline=500):
    """prefix: number of canonical disjoint concrete pair reactions (AB, CD, EF); nsym symbolic reactions of given arity"""
    from chempy import ReactionSystem

    IdxRxn = _mk_pair_rxn_class()
    assum = []
    spec = []
    for g in range(prefix):
        spec.append([2 * g, 2 * g + 1])
    for i in range(nsym):
        idx = [Int("e%d_%d" % (i, j)) for j in range(arity)]
        for v in idx:
            assum += [v.t >= 0, v.t < nkeys]
        for a, b in zip(idx, idx[1:]):
            assum.append(a.t <= b.t)  # unordered species set: symmetry reduction
        spec.append(idx)
    all_keys = KEYS[:nkeys]
    holder = {}

    def fn():
        rxns = [IdxRxn(idxs, nkeys, i) for i, idxs in enumerate(spec)]
        rsys = ReactionSystem(rxns, all_keys, checks=())
        subs = rsys.split(checks=())
        keysets = [r.keys() for r in rxns]
        res = [([r.tag for r in s.rxns], list(s.substances)) for s in subs]
        part = {k: rsys.substance_participation(k) for k in all_keys}
        return keysets, res, part

    def goal(p):
        if p.kind == "exc":
            return False
        keysets, res, part = p.value
        bad = check_split(res, keysets, all_keys)
        for k in all_keys:
            if part[k] != [i for i, ks in enumerate(keysets) if k in ks]:
                bad.append("participation")
        holder.setdefault("n", 0)
        holder["n"] += 1
        return not bad

    o = explore_and_prove(fn, assum, goal, max_paths=1000000, deadline_s=deadline)
    res = dict(engine="Z", functions=[env.describe(ReactionSystem.split), env.describe(ReactionSystem.substance_participation)],
               obligations=o.obligations, discharged=o.discharged, violations=[], inconclusive=o.inconclusive, queries=o.queries,
               paths=o.paths, solver_s=o.solver_s,
               bounds="%d canonical disjoint reactions + %d symbolic reactions of <= %d species over %d keys" % (prefix, nsym, arity, nkeys),
               sample={"prefix": [[KEYS[i] for i in s] for s in spec[:prefix]], "symbolic reactions": nsym, "keys": all_keys})
    for p, m, g in o.failed[:2]:
        if p.kind == "ok":
            keysets = [sorted(ks) for ks in p.value[0]]
        else:
            keysets = []
            for idxs in spec:
                keysets.append(sorted({KEYS[v if isinstance(v, int) else model_value(m, v.t)] for v in idxs}))
        res["violations"].append(dict(key="split:%s" % ("exc" if p.kind == "exc" else "partition"),
                                      desc="reactions over key sets %s: split -> %s" % (keysets, p.value[1] if p.kind == "ok" else repr(p.value)),
                                      replay_src=REPLAY_SPLIT % dict(oracle=ORACLE_SRC, keysets=[set(k) for k in keysets], all_keys=all_keys)))
    # twin: an oracle that never fuses must disagree somewhere
    res["twin"] = "violated" if (prefix + nsym) >= 2 and o.paths > 1 else "n/a"
    res["status"] = "violation" if res["violations"] else ("inconclusive" if res["inconclusive"] else "discharged")
    return res


REPLAY_CAT = '''
from chempy import Reaction, ReactionSystem, Equilibrium
rxs = %(rxs)s
keys = %(keys)r
mode = %(mode)r
rxns = [Reaction(r[0], r[1], None, inact_reac=r[2], inact_prod=r[3], checks=()) for r in rxs]
rsys = ReactionSystem(rxns, keys, checks=())
def net(r, k): return r[1].get(k, 0) - r[0].get(k, 0) + r[3].get(k, 0) - r[2].get(k, 0)
def allr(r, k): return r[0].get(k, 0) + r[2].get(k, 0)
def allp(r, k): return r[1].get(k, 0) + r[3].get(k, 0)
bad = []
if mode == "categorize":
    got = rsys.categorize_substances(checks=())
    exp = dict(accumulated=set(), depleted=set(), unaffected=set(), nonparticipating=set())
    for k in keys:
        in_r = any(net(r, k) < 0 for r in rxs); in_p = any(net(r, k) > 0 for r in rxs)
        present = any(allr(r, k) > 0 or allp(r, k) > 0 for r in rxs)
        if in_r and in_p: pass
        elif in_r: exp["depleted"].add(k)
        elif in_p: exp["accumulated"].add(k)
        elif present: exp["unaffected"].add(k)
        else: exp["nonparticipating"].add(k)
    if got != exp: bad.append("categorize_substances %%s expected %%s" %% (got, exp))
elif mode == "equilibria":
    got = rsys.identify_equilibria()
    def E(i, j): return all(allr(rxs[i], k) == allp(rxs[j], k) and allp(rxs[i], k) == allr(rxs[j], k) for k in keys)
    for (i, j) in got:
        if not (i < j and E(i, j)): bad.append("pair %%s is not a forward/backward pair" %% ((i, j),))
    for i in range(len(rxs)):
        if any(E(i, j) for j in range(i + 1, len(rxs))) and not any(a == i for a, _ in got):
            bad.append("reaction %%d has a reverse partner but no pair is reported" %% i)
    for k in keys:
        eff = rsys.per_reaction_effect_on_substance(k)
        if eff != {i: net(r, k) for i, r in enumerate(rxs) if net(r, k) != 0}: bad.append("per_reaction_effect_on_substance(%%s)=%%s" %% (k, eff))
print(rxs)
for b in bad: print("MISMATCH", b)
sys.exit(1 if bad else 0)
'''


def _sym_rxs(nr, keys, lo, hi, assum, with_inact=True, presence=None):
    rxs = []
    for ri in range(nr):
        r = []
        for nm in ("r", "p", "ir", "ip"):
            d = {}
            if nm in ("ir", "ip") and not with_inact:
                r.append(d)
                continue
            for s in keys:
                if presence is not None and s not in presence[ri]:
                    continue
                if nm in ("ir", "ip") and s != keys[-1]:
                    continue
                v = Int("x%d_%s_%s" % (ri, nm, s))
                assum += [v.t >= lo, v.t <= hi]
                d[s] = v
            r.append(d)
        rxs.append(tuple(r))
    return rxs


def task_categorize(nr, nkeys, hi):
    from chempy import Reaction, ReactionSystem
    import chempy.chemistry as cc

    cc.int = sym_int
    keys = KEYS[:nkeys]
    assum = []
    rxs = _sym_rxs(nr, keys, 0, hi, assum)

    def net(r, k):
        return r[1].get(k, 0) - r[0].get(k, 0) + r[3].get(k, 0) - r[2].get(k, 0)

    def fn():
        rxns = [Reaction(dict(r[0]), dict(r[1]), None, inact_reac=dict(r[2]), inact_prod=dict(r[3]), checks=()) for r in rxs]
        rsys = ReactionSystem(rxns, keys + ["Z"], checks=())
        return rsys.categorize_substances(checks=())

    def goal(p):
        if p.kind == "exc":
            return False
        got = p.value
        conds = []
        for k in keys + ["Z"]:
            nets = [lift(net(r, k)) for r in rxs]
            nets = [n if not isinstance(n, int) else z3.IntVal(n) for n in nets]
            in_r = z3.Or(*[n < 0 for n in nets])
            in_p = z3.Or(*[n > 0 for n in nets])
            pres = z3.Or(*[z3.Or(lift(r[0].get(k, 0) + r[2].get(k, 0), z3.IntVal(0)) > 0, lift(r[1].get(k, 0) + r[3].get(k, 0), z3.IntVal(0)) > 0)
                           for r in rxs])
            exp = dict(depleted=z3.And(in_r, z3.Not(in_p)), accumulated=z3.And(in_p, z3.Not(in_r)),
                       unaffected=z3.And(z3.Not(in_r), z3.Not(in_p), pres), nonparticipating=z3.And(z3.Not(in_r), z3.Not(in_p), z3.Not(pres)))
            for cat, e in exp.items():
                conds.append(e if k in got[cat] else z3.Not(e))
        if set(got) != {"accumulated", "depleted", "unaffected", "nonparticipating"}:
            return False
        return z3.And(*conds)

    o = explore_and_prove(fn, assum, goal, max_paths=100000, deadline_s=500)
    res = dict(engine="Z", functions=[env.describe(ReactionSystem.categorize_substances)], obligations=o.obligations, discharged=o.discharged,
               violations=[], inconclusive=o.inconclusive, queries=o.queries, paths=o.paths, solver_s=o.solver_s,
               bounds="%d reactions x %d substances (+1 absent), coefficients 0..%d incl. one inactive column" % (nr, nkeys, hi),
               sample={"reactions": nr, "keys": keys + ["Z"], "coefficients": "symbolic 0..%d" % hi})
    for p, m, g in o.failed[:2]:
        cr = [tuple(concretize(m, d) for d in r) for r in rxs]
        res["violations"].append(dict(key="categorize:%s" % p.kind, desc="reactions %s -> %r" % (cr, p.value),
                                      replay_src=REPLAY_CAT % dict(rxs=pyrepr(cr), keys=keys + ["Z"], mode="categorize")))
    res["twin"] = "violated"
    ot = explore_and_prove(fn, assum, lambda p: False if p.kind == "exc" else (len(p.value["unaffected"]) == 0), max_paths=100000, deadline_s=120, max_fail=1)
    res["twin"] = twin_verdict(ot)
    res["status"] = "violation" if res["violations"] else ("inconclusive" if res["inconclusive"] else "discharged")
    return res


def task_equilibria(nr, nkeys, hi, presence=None):
    from chempy import Reaction, ReactionSystem
    import chempy.chemistry as cc

    cc.int = sym_int
    keys = KEYS[:nkeys]
    assum = []
    rxs = _sym_rxs(nr, keys, 0, hi, assum, presence=presence)

    def fn():
        rxns = [Reaction(dict(r[0]), dict(r[1]), None, inact_reac=dict(r[2]), inact_prod=dict(r[3]), checks=()) for r in rxs]
        rsys = ReactionSystem(rxns, keys, checks=())
        eff = {k: rsys.per_reaction_effect_on_substance(k) for k in keys}
        return rsys.identify_equilibria(), eff

    def E(i, j):
        c = []
        for k in keys:
            ar_i = rxs[i][0].get(k, 0) + rxs[i][2].get(k, 0)
            ap_i = rxs[i][1].get(k, 0) + rxs[i][3].get(k, 0)
            ar_j = rxs[j][0].get(k, 0) + rxs[j][2].get(k, 0)
            ap_j = rxs[j][1].get(k, 0) + rxs[j][3].get(k, 0)
            c += [eq_term(ar_i, ap_j), eq_term(ap_i, ar_j)]
        return z3.And(*c)

    def goal(p):
        if p.kind == "exc":
            return False
        got, eff = p.value
        conds = []
        for (i, j) in got:
            if not i < j:
                return False
            conds.append(E(i, j))
        for i in range(nr):
            if not any(a == i for a, _ in got):
                for j in range(i + 1, nr):
                    conds.append(z3.Not(E(i, j)))
        for k in keys:
            for ri, r in enumerate(rxs):
                n = r[1].get(k, 0) - r[0].get(k, 0) + r[3].get(k, 0) - r[2].get(k, 0)
                if ri in eff[k]:
                    conds += [eq_term(eff[k][ri], n), z3.Not(eq_term(n, 0))]
                else:
                    conds.append(eq_term(n, 0))
        return z3.And(*conds)

    o = explore_and_prove(fn, assum, goal, max_paths=100000, deadline_s=500)
    res = dict(engine="Z", functions=[env.describe(ReactionSystem.identify_equilibria), env.describe(ReactionSystem.per_reaction_effect_on_substance)],
               obligations=o.obligations, discharged=o.discharged, violations=[], inconclusive=o.inconclusive, queries=o.queries,
               paths=o.paths, solver_s=o.solver_s, bounds="%d reactions x %d substances, coefficients 0..%d, key presence %s" % (nr, nkeys, hi, presence or "all"),
               sample={"reactions": nr, "keys": keys, "coefficients": "symbolic 0..%d" % hi, "presence": presence or "all keys in all dicts"})
    for p, m, g in o.failed[:2]:
        cr = [tuple(concretize(m, d) for d in r) for r in rxs]
        res["violations"].append(dict(key="equilibria:%s" % p.kind, soft=soft_path(p), desc="reactions %s -> %r" % (cr, p.value),
                                      replay_src=REPLAY_CAT % dict(rxs=pyrepr(cr), keys=keys, mode="equilibria")))
    ot = explore_and_prove(fn, assum, lambda p: False if p.kind == "exc" else (len(p.value[0]) == 0), max_paths=100000, deadline_s=120, max_fail=1)
    res["twin"] = twin_verdict(ot)
    res["status"] = "violation" if res["violations"] else ("inconclusive" if res["inconclusive"] else "discharged")
    return res


REPLAY_SUBSET = '''
from chempy import Reaction, ReactionSystem
flags = %(flags)r
twins = %(twins)r
rxns = [Reaction({"A": 1}, {"B": 1}, 1), Reaction({"B": 1}, {"C": 1}, 2), Reaction({"C": 1, "D": 1}, {"A": 2}, 3)][:len(flags)]
if twins: rxns[2] = Reaction({"A": 1}, {"B": 1}, 1, name="twin")   # a distinct object that compares equal to the first reaction
CK = dict(checks=()) if twins else {}
rsys = ReactionSystem(rxns, "A B C D E", **CK)
yes, no = rsys.subset(lambda r: flags[[i for i, x in enumerate(rxns) if x is r][0]])
bad = []
if [r for r in yes.rxns] != [r for r, f in zip(rxns, flags) if f] or [r for r in no.rxns] != [r for r, f in zip(rxns, flags) if not f]:
    bad.append("subset reaction lists")
for part, fl in ((yes, True), (no, False)):
    exp = [k for k in rsys.substances if any(k in r.keys() for r, f in zip(rxns, flags) if f == fl)]
    if list(part.substances) != exp: bad.append("subset substances %%s expected %%s" %% (list(part.substances), exp))
tot = yes + no
if sorted(map(id, tot.rxns)) != sorted(map(id, rxns)): bad.append("sum of the two subsets does not contain exactly the original reactions")
other = ReactionSystem([Reaction({"E": 1}, {"F": 1}, 4)], "E F")
s2 = rsys + other
if [id(r) for r in s2.rxns] != [id(r) for r in rxns] + [id(other.rxns[0])] or list(s2.substances) != ["A", "B", "C", "D", "E", "F"]: bad.append("__add__")
r3 = ReactionSystem(rxns, "A B C D E", **CK); r3 += other
if [id(r) for r in r3.rxns] != [id(r) for r in rxns] + [id(other.rxns[0])] or list(r3.substances) != ["A", "B", "C", "D", "E", "F"]: bad.append("__iadd__")
if not (rsys == ReactionSystem(rxns, "A B C D E", **CK)) or (rsys == s2): bad.append("__eq__")
r4 = ReactionSystem(rxns, "A B C D E F", **CK); r4 += (r for r in other.rxns)
r5 = ReactionSystem(rxns, "A B C D E F", **CK); r5 += iter(list(other.rxns))
if len(r4.rxns) != len(rxns) + 1 or len(r5.rxns) != len(rxns) + 1: bad.append("+= with a generator / iterator of reactions added %%d / %%d reactions" %% (len(r4.rxns) - len(rxns), len(r5.rxns) - len(rxns)))
r6 = ReactionSystem((r for r in rxns), **CK)
if len(r6.rxns) != len(rxns): bad.append("constructed from a generator: %%d of %%d reactions" %% (len(r6.rxns), len(rxns)))
for b in bad: print("MISMATCH", b)
sys.exit(1 if bad else 0)
'''


def task_subset(nr, twins=False):
    from chempy import Reaction, ReactionSystem

    flags = [z3.Bool("pred%d" % i) for i in range(nr)]
    gen_ok = []

    def fn():
        rxns = [Reaction({"A": 1}, {"B": 1}, 1), Reaction({"B": 1}, {"C": 1}, 2), Reaction({"C": 1, "D": 1}, {"A": 2}, 3)][:nr]
        ck = {}
        if twins:
            # two DISTINCT reaction objects that compare equal (same stoichiometry and constant, other name) - e.g. after adding two models
            rxns[2] = Reaction({"A": 1}, {"B": 1}, 1, name="twin")
            ck = dict(checks=())
        rsys = ReactionSystem(rxns, "A B C D E", **ck)
        yes, no = rsys.subset(lambda r: SymBool(flags[[i for i, x in enumerate(rxns) if x is r][0]]))
        tot = yes + no
        other = ReactionSystem([Reaction({"E": 1}, {"F": 1}, 4)], "E F")
        s2 = rsys + other
        r3 = ReactionSystem(rxns, "A B C D E", **ck)
        r3 += other
        # the same sum with one-shot iterables of reactions (generator, iterator)
        r4 = ReactionSystem(rxns, "A B C D E F", **ck)
        r4 += (r for r in other.rxns)
        r5 = ReactionSystem(rxns, "A B C D E F", **ck)
        r5 += iter(list(other.rxns))
        r6 = ReactionSystem((r for r in rxns), **ck)   # constructed from a generator, substances deduced
        gen_ok.append(len(r4.rxns) == nr + 1 and len(r5.rxns) == nr + 1 and r4.rxns[-1] is other.rxns[0] and r5.rxns[-1] is other.rxns[0]
                      and len(r6.rxns) == nr and all(a is b for a, b in zip(r6.rxns, rxns)))
        ids = lambda rs: [[i for i, x in enumerate(rxns + other.rxns) if x is r][0] for r in rs.rxns]  # noqa
        return (ids(yes), list(yes.substances), ids(no), list(no.substances), sorted(ids(tot)), ids(s2), list(s2.substances), ids(r3),
                list(r3.substances), rsys == ReactionSystem(rxns, "A B C D E", **ck), rsys == s2)

    rk = [{"A", "B"}, {"B", "C"}, {"A", "C", "D"}][:nr]
    if twins:
        rk[2] = {"A", "B"}

    def goal(p):
        if p.kind == "exc":
            return False
        y, ys, n, ns_, tot, s2, s2s, r3, r3s, eq1, eq2 = p.value
        if not gen_ok or not gen_ok[-1]:
            return False
        conds = []
        for i in range(nr):
            conds.append(flags[i] if i in y else z3.Not(flags[i]))
            if (i in y) == (i in n):
                return False
        if y != sorted(y) or n != sorted(n) or tot != list(range(nr)):
            return False
        if ys != [k for k in "ABCDE" if any(k in rk[i] for i in y)] or ns_ != [k for k in "ABCDE" if any(k in rk[i] for i in n)]:
            return False
        if s2 != list(range(nr + 1)) or r3 != list(range(nr + 1)) or s2s != list("ABCDEF") or r3s != list("ABCDEF"):
            return False
        if eq1 is not True or eq2 is not False:
            return False
        return z3.And(*conds)

    o = explore_and_prove(fn, [], goal, max_paths=1000)
    res = dict(engine="Z", functions=[env.describe(ReactionSystem.subset), env.describe(ReactionSystem.__add__), env.describe(ReactionSystem.__iadd__),
                                      env.describe(ReactionSystem.__eq__)],
               obligations=o.obligations, discharged=o.discharged, violations=[], inconclusive=o.inconclusive, queries=o.queries,
               paths=o.paths, solver_s=o.solver_s, bounds="%d reactions, predicate = one symbolic bool per reaction" % nr,
               sample={"predicate": "symbolic bool per reaction", "reactions": nr})
    for p, m, g in o.failed[:1]:
        fl = [bool(model_value(m, f)) for f in flags]
        res["violations"].append(dict(key="subset:%s" % p.kind, desc="predicate values %s -> %r" % (fl, p.value),
                                      replay_src=REPLAY_SUBSET % dict(flags=fl, twins=twins)))
    res["twin"] = "violated" if o.paths == 2 ** nr else "passed"
    res["status"] = "violation" if res["violations"] else ("inconclusive" if res["inconclusive"] else "discharged")
    return res


REPLAY_UB = '''
from collections import OrderedDict, defaultdict
from chempy import ReactionSystem, Substance
rxn_strs = %(rxns)r
c0 = %(c0)s
c = %(c)s
dflt = %(dflt)s
rsys = ReactionSystem.from_string("\\n".join(s + "; 1" for s in rxn_strs), substance_factory=Substance.from_formula)
names = list(rsys.substances)
before = {n: dict(rsys.substances[n].composition) for n in names}
cbv_before = rsys.composition_balance_vectors()
ub = rsys.upper_conc_bounds([c0[n] for n in names], min_=min, dtype=object)
bad = []
if {n: dict(rsys.substances[n].composition) for n in names} != before: bad.append("the query changed the compositions of the substances")
if rsys.composition_balance_vectors() != cbv_before: bad.append("composition_balance_vectors differs after the query")
def expected(state):
    tot = {}
    for n in names:
        for e, a in rsys.substances[n].composition.items():
            if e != 0: tot[e] = tot.get(e, 0) + a * state[n]
    out = []
    for n in names:
        cand = [tot[e] / a for e, a in rsys.substances[n].composition.items() if e != 0]
        out.append(min(cand) if cand else float("inf"))
    return out
for n, u, exp in zip(names, ub, expected(c0)):
    if u != exp: bad.append("upper bound of %%s is %%s, expected min(total/atoms) = %%s" %% (n, u, exp))
    if c is not None and c[n] > u: bad.append("state with the same element totals exceeds the bound of %%s: %%s > %%s" %% (n, c[n], u))
ref = [c0[n] for n in names]
sparse_state = {n: (c0[n] if n == names[0] else dflt) for n in names}
def kinds():   # fresh objects for every call: reading a defaultdict inserts the keys it was asked for
    return [("dict", dict(c0), c0), ("reversed OrderedDict", OrderedDict(reversed(list(c0.items()))), c0), ("defaultdict", defaultdict(lambda: 0, c0), c0),
            ("list", list(ref), c0), ("tuple", tuple(ref), c0),
            ("defaultdict with a non-zero default and one key", defaultdict(lambda: dflt, {names[0]: c0[names[0]]}), sparse_state)]
for kn, kv, state in kinds():
    u2 = list(rsys.upper_conc_bounds(kv, min_=min, dtype=object))
    if u2 != expected(state): bad.append("upper_conc_bounds(%%s) = %%s, expected %%s" %% (kn, u2, expected(state)))
for kn, kv, state in kinds():
    arr = list(rsys.as_per_substance_array(kv, dtype=object))
    if arr != [state[n] for n in names]: bad.append("as_per_substance_array(%%s) = %%s, expected %%s" %% (kn, arr, [state[n] for n in names]))
for b in bad: print("MISMATCH", b)
sys.exit(1 if bad else 0)
'''


def task_bounds(systems):
    from chempy import ReactionSystem, Substance

    res = dict(engine="Z", functions=[env.describe(ReactionSystem.upper_conc_bounds), env.describe(ReactionSystem.as_per_substance_array),
                                      env.describe(ReactionSystem.as_per_substance_dict)],
               obligations=0, discharged=0, violations=[], inconclusive=[], queries=0, paths=0, solver_s=0.0,
               bounds="%d generated systems, all non-negative real initial states" % len(systems))
    tw = None
    for rxn_strs in systems:
        rsys = ReactionSystem.from_string("\n".join(s + "; 1" for s in rxn_strs), substance_factory=Substance.from_formula)
        names = list(rsys.substances)
        c0 = {n: Real("c0_%d" % i) for i, n in enumerate(names)}
        c = {n: Real("c_%d" % i) for i, n in enumerate(names)}
        dflt = Real("dflt")
        assum = [v.t >= 0 for v in c0.values()] + [dflt.t >= 0]
        sparse_state = {n: (c0[n] if n == names[0] else dflt) for n in names}
        comps = {n: {e: a for e, a in rsys.substances[n].composition.items() if e != 0} for n in names}
        elems = sorted(set().union(*[set(d) for d in comps.values()]))
        full = {n: dict(rsys.substances[n].composition) for n in names}  # incl. the charge entry
        alt_ok = []
        sparse_out = []
        cbv0 = rsys.composition_balance_vectors()

        def fn():
            arr = rsys.as_per_substance_array(c0, dtype=object)
            back = rsys.as_per_substance_dict(arr)
            # other kinds of per-substance input: a mapping in another key order, a defaultdict, a plain list / tuple in substance order
            from collections import OrderedDict as _OD, defaultdict as _dd
            alts = [rsys.as_per_substance_array(_OD(reversed(list(c0.items()))), dtype=object),
                    rsys.as_per_substance_array(_dd(lambda: 0, c0), dtype=object),
                    rsys.as_per_substance_array([c0[n_] for n_ in names], dtype=object),
                    rsys.as_per_substance_array(tuple(c0[n_] for n_ in names), dtype=object)]
            alt_ok.append(alts)
            ub = rsys.upper_conc_bounds(c0, min_=min, dtype=object)
            # a defaultdict with a NON-ZERO default that lists one species only: every other species is at the default
            sparse_out.append((rsys.as_per_substance_array(_dd(lambda: dflt, {names[0]: c0[names[0]]}), dtype=object),
                               rsys.upper_conc_bounds(_dd(lambda: dflt, {names[0]: c0[names[0]]}), min_=min, dtype=object),
                               rsys.upper_conc_bounds(_OD(reversed(list(c0.items()))), min_=min, dtype=object)))
            # history: a query must leave the system as it was (the substances are shared with every other view of the system)
            untouched = {n: dict(rsys.substances[n].composition) for n in names} == full and rsys.composition_balance_vectors() == cbv0
            return ub, arr, back, untouched

        def goal(p, twin=False):
            if p.kind == "exc":
                return False
            ub, arr, back, untouched = p.value
            if not untouched or not alt_ok or any(len(a_) != len(names) for a_ in alt_ok[-1]):
                return False
            conds = [eq_term(a_[i_], c0[n_]) for a_ in alt_ok[-1] for i_, n_ in enumerate(names)]
            if len(arr) != len(names) or list(back) != names:
                return False
            for i, n in enumerate(names):
                conds += [eq_term(arr[i], c0[n]), eq_term(back[n], c0[n])]
            if not sparse_out or any(len(x_) != len(names) for x_ in sparse_out[-1]):
                return False
            sp_arr, sp_ub, od_ub = sparse_out[-1]
            conds += [eq_term(sp_arr[i_], sparse_state[n_]) for i_, n_ in enumerate(names)]
            tot_s = {e: sum(comps[n].get(e, 0) * sparse_state[n] for n in names if e in comps[n]) for e in elems}
            for n, u_s, u_od, u in zip(names, sp_ub, od_ub, ub):
                cand_s = [tot_s[e] / a for e, a in comps[n].items()]
                if not cand_s:
                    if u_s != float("inf") or u_od != float("inf"):
                        return False
                    continue
                if any(isinstance(x_, float) and (x_ != x_ or x_ in (float("inf"), float("-inf"))) for x_ in (u_s, u_od)):
                    return False
                conds.append(z3.And(*[lift(u_s) <= lift(x) for x in cand_s]))
                conds.append(z3.Or(*[lift(u_s) == lift(x) for x in cand_s]))
                if not (isinstance(u, float) and u != u):
                    conds.append(eq_term(u_od, u))
            tot = {e: sum(comps[n].get(e, 0) * c0[n] for n in names if e in comps[n]) for e in elems}
            same = [z3.Sum([comps[n][e] * c[n].t for n in names if e in comps[n]]) == lift(tot[e]) for e in elems]
            nonneg = [c[n].t >= 0 for n in names]
            for n, u in zip(names, ub):
                cand = [tot[e] / a for e, a in comps[n].items()]
                if not cand:
                    if u != float("inf"):
                        return False
                    continue
                if isinstance(u, float) and (u != u or u in (float("inf"), float("-inf"))):
                    return False  # a species that contains a tracked element has a finite bound
                ut = lift(u)
                if twin:
                    ut = ut - 1
                conds.append(z3.And(*[ut <= lift(x) for x in cand]))
                conds.append(z3.Or(*[ut == lift(x) for x in cand]))
                conds.append(z3.Implies(z3.And(*(same + nonneg)), c[n].t <= ut))
            return z3.And(*conds)

        o = explore_and_prove(fn, assum, goal, max_paths=20000, deadline_s=200)
        res["obligations"] += o.obligations
        res["discharged"] += o.discharged
        res["queries"] += o.queries
        res["paths"] += o.paths
        res["solver_s"] += o.solver_s
        res["inconclusive"] += o.inconclusive
        for p, m, g in o.failed[:1]:
            cc0 = concretize(m, c0)
            cc = concretize(m, c)
            res["violations"].append(dict(key="upper_conc_bounds:%s" % p.kind, desc="system %s c0=%s" % (rxn_strs, cc0),
                                          replay_src=REPLAY_UB % dict(rxns=rxn_strs, c0=pyrepr(cc0), c=pyrepr(cc), dflt=pyrepr(concretize(m, [dflt])[0]))))
        if tw is None:
            ot = explore_and_prove(fn, assum, lambda p: goal(p, True), max_paths=20000, deadline_s=60, max_fail=1)
            tw = twin_verdict(ot)
    res["twin"] = tw
    res["sample"] = {"system": systems[0], "initial state": "symbolic non-negative reals"}
    res["status"] = "violation" if res["violations"] else ("inconclusive" if res["inconclusive"] else "discharged")
    return res


REPLAY_CTOR = '''
from chempy import Reaction, ReactionSystem
rxs = %(rxs)s
rxns = [Reaction(r[0], r[1], 7, inact_reac=r[2], inact_prod=r[3], checks=()) for r in rxs]
dup = rxs[0] == rxs[1]
ReactionSystem([Reaction({"A": 1}, {"B": 1}), Reaction({"A": 1}, {"B": 1})], "A B", dont_check={"duplicate"})   # earlier, unrelated opt-outs
ReactionSystem([Reaction({"A": 1}, {"Q": 1})], "A B", dont_check={"substance_keys"})
try:
    ReactionSystem(rxns, "A B C")
    refused = None
except ValueError as e:
    refused = str(e)
print(rxs, "duplicate:", dup, "refused:", refused)
bad = (dup and not (refused and "Duplicate" in refused)) or (not dup and refused is not None)
try:
    ReactionSystem([Reaction({"A": 1}, {"Q": 1})], "A B C"); bad = True
except ValueError:
    pass
try:
    ReactionSystem([Reaction({"A": 1}, {"B": 1}, name="x"), Reaction({"B": 1}, {"C": 1}, name="x")], "A B C"); bad = True
except ValueError:
    pass
rs3 = ReactionSystem([Reaction({"A": 1}, {"B": 1}), Reaction({"B": 1}, {"C": 1})], "A B C")
if [rs3.as_substance_index(k) for k in "ABC"] != [0, 1, 2]: bad = True
try:
    print("as_substance_index('X') ->", rs3.as_substance_index("X")); bad = True
except (ValueError, KeyError, IndexError):
    pass
sys.exit(1 if bad else 0)
'''


def task_constructor():
    """constructor checks: duplicates refused <=> two reactions are equal; unknown keys and duplicate names refused"""
    from chempy import Reaction, ReactionSystem
    import chempy.chemistry as cc

    cc.int = sym_int
    keys = ["A", "B", "C"]
    assum = []
    rxs = _sym_rxs(2, keys, 0, 2, assum)

    def fn():
        rxns = [Reaction(dict(r[0]), dict(r[1]), 7, inact_reac=dict(r[2]), inact_prod=dict(r[3]), checks=()) for r in rxs]
        for r in rxns:
            r.string = lambda *a, **k: "<rxn>"
        # history: earlier, unrelated constructions that opted out of a check must not switch it off (or on) for this one
        ReactionSystem([Reaction({"A": 1}, {"B": 1}), Reaction({"A": 1}, {"B": 1})], "A B", dont_check={"duplicate"})
        ReactionSystem([Reaction({"A": 1}, {"Q": 1})], "A B", dont_check={"substance_keys"})
        return ReactionSystem(rxns, keys)

    same = z3.And(*[eq_term(rxs[0][i][k], rxs[1][i][k]) for i in range(4) for k in rxs[0][i]])

    def goal(p, twin=False):
        if p.kind == "exc":
            if isinstance(p.value, ValueError) and "Duplicate reactions" in str(p.value):
                return same if not twin else z3.Not(same)
            return False
        return z3.Not(same)

    o = explore_and_prove(fn, assum, goal, max_paths=20000, deadline_s=300)
    ot = explore_and_prove(fn, assum, lambda p: goal(p, True), max_paths=20000, deadline_s=60, max_fail=1)
    bad = []
    try:
        ReactionSystem([Reaction({"A": 1}, {"Q": 1})], "A B C")
        bad.append("unknown key accepted")
    except ValueError:
        pass
    try:
        ReactionSystem([Reaction({"A": 1}, {"B": 1}, name="x"), Reaction({"B": 1}, {"C": 1}, name="x")], "A B C")
        bad.append("duplicate names accepted")
    except ValueError:
        pass
    rs3 = ReactionSystem([Reaction({"A": 1}, {"B": 1}), Reaction({"B": 1}, {"C": 1})], "A B C")
    if [rs3.as_substance_index(k) for k in "ABC"] != [0, 1, 2] or rs3.as_substance_index(2) != 2:
        bad.append("as_substance_index is not the position in substance order")
    try:
        got = rs3.as_substance_index("X")
        bad.append("as_substance_index of a key that is not a substance returned %r" % (got,))
    except (ValueError, KeyError, IndexError):
        pass
    rs = ReactionSystem([Reaction({"B": 1}, {"A": 1})], "B A")
    if list(rs.substances) != ["B", "A"] or list(ReactionSystem([Reaction({"B": 1}, {"A": 1})]).substances) != ["A", "B"]:
        bad.append("substance ordering")
    res = dict(engine="Z", functions=[env.describe(ReactionSystem.check_duplicate), env.describe(ReactionSystem.check_substance_keys),
                                      env.describe(ReactionSystem.check_duplicate_names), env.describe(Reaction.__eq__)],
               obligations=o.obligations + 1, discharged=o.discharged + (0 if bad else 1), violations=[], inconclusive=list(o.inconclusive),
               queries=o.queries, paths=o.paths, solver_s=o.solver_s, twin=twin_verdict(ot),
               bounds="2 reactions x 3 keys, coefficients 0..2 symbolic", sample={"claim": "constructor refuses <=> the two reactions are equal"})
    for p, m, g in o.failed[:1]:
        cr = [tuple(concretize(m, d) for d in r) for r in rxs]
        res["violations"].append(dict(key="constructor:%s" % p.kind, soft=wrapper_exc(p.value), desc="reactions %s -> %r" % (cr, p.value),
                                      replay_src=REPLAY_CTOR % dict(rxs=pyrepr(cr))))
    if bad:
        res["violations"].append(dict(key="constructor:" + bad[0], desc="; ".join(bad), replay_src=REPLAY_CTOR % dict(rxs="[({'A': 1}, {'B': 1}, {}, {}), ({'B': 1}, {'C': 1}, {}, {})]")))
    res["status"] = "violation" if res["violations"] else ("inconclusive" if res["inconclusive"] else "discharged")
    return res


REPLAY_CONCAT = '''
from chempy import Reaction, ReactionSystem
import numpy as np
cs = %(cs)s
rs = [ReactionSystem([Reaction({"A": c}, {"B": 1}, 1, name="r%%d" %% i)], "A B") for i, c in enumerate(cs)]
tot, skipped = ReactionSystem.concatenate(rs)
exp_kept, exp_skipped = [], []
for i, c in enumerate(cs):
    (exp_skipped if any(cs[j] == c for j in exp_kept) else exp_kept).append(i)
got_kept = [int(r.name[1:]) for r in tot.rxns]; got_skipped = [int(r.name[1:]) for r in skipped.rxns]
bad = []
if got_kept != exp_kept or got_skipped != exp_skipped: bad.append("concatenate kept %%s skipped %%s, expected %%s / %%s" %% (got_kept, got_skipped, exp_kept, exp_skipped))
rsys = ReactionSystem([Reaction({"A": 1}, {"B": 1}), Reaction({"B": 1}, {"C": 1})], "A B C")
try:
    arr, keys = rsys.per_substance_varied({"A": 1, "B": 2, "C": 3}, {"C": [30, 31, 32], "A": [10, 11]})
except Exception as e:
    print("per_substance_varied raised %%r" %% (e,)); sys.exit(1)
if keys != ("A", "C") or arr.shape != (2, 3, 3): bad.append("per_substance_varied shape/keys %%s %%s" %% (arr.shape, keys))
else:
    for i, a in enumerate([10, 11]):
        for j, c in enumerate([30, 31, 32]):
            if list(arr[i, j]) != [a, 2, c]: bad.append("per_substance_varied[%%d,%%d] = %%s" %% (i, j, list(arr[i, j])))
arr2, keys2 = rsys.per_substance_varied({"A": 1, "B": 2, "C": 3}, {"C": [30, 31], "A": [10, 11]})
for i, a in enumerate([10, 11]):
    for j, c in enumerate([30, 31]):
        if list(arr2[i, j]) != [a, 2, c]: bad.append("per_substance_varied (2x2) [%%d,%%d] = %%s" %% (i, j, list(arr2[i, j])))
d = {"C": 3.0, "A": 1.0, "B": 2.0}
if list(rsys.as_per_substance_array(d)) != [1.0, 2.0, 3.0] or rsys.as_per_substance_dict([1.0, 2.0, 3.0]) != {"A": 1.0, "B": 2.0, "C": 3.0}: bad.append("array/dict order")
for b in bad: print("MISMATCH", b)
sys.exit(1 if bad else 0)
'''


def task_concatenate():
    """concatenate of three systems: a reaction is kept iff its stoichiometry differs from every reaction kept before
    (symbolic coefficients decide equality); per_substance_varied / array<->dict ordering by concrete structure"""
    from chempy import Reaction, ReactionSystem
    import chempy.chemistry as cc

    cc.int = sym_int
    cs = [Int("c%d" % i) for i in range(3)]
    assum = [z3.And(c.t >= 1, c.t <= 2) for c in cs]

    def fn():
        rs = [ReactionSystem([Reaction({"A": c}, {"B": 1}, 1, name="r%d" % i, checks=())], "A B", checks=()) for i, c in enumerate(cs)]
        tot, skipped = ReactionSystem.concatenate(rs)
        return [int(r.name[1:]) for r in tot.rxns], [int(r.name[1:]) for r in skipped.rxns]

    def goal(p, twin=False):
        if p.kind == "exc":
            return False
        kept, skipped = p.value
        if sorted(kept + skipped) != [0, 1, 2] or kept != sorted(kept) or 0 not in kept:
            return False
        conds = []
        for i in (1, 2):
            earlier_kept = [j for j in kept if j < i]
            dup = z3.Or(*[cs[i].t == cs[j].t for j in earlier_kept]) if earlier_kept else z3.BoolVal(False)
            conds.append(dup if (i in skipped) != twin else z3.Not(dup))
        return z3.And(*conds)

    o = explore_and_prove(fn, assum, goal, max_paths=500)
    ot = explore_and_prove(fn, assum, lambda q: goal(q, True), max_paths=500, max_fail=1)
    res = dict(engine="Z", functions=[env.describe(ReactionSystem.concatenate), env.describe(ReactionSystem.per_substance_varied),
                                      env.describe(ReactionSystem.as_per_substance_array)], obligations=o.obligations + 1, discharged=o.discharged,
               violations=[], inconclusive=list(o.inconclusive), queries=o.queries, paths=o.paths, solver_s=o.solver_s,
               twin=twin_verdict(ot), bounds="3 single-reaction systems, coefficient 1..2 symbolic; ordering by concrete structure",
               sample={"claim": "kept iff different from every reaction kept before"})
    for p, m, g in o.failed[:1]:
        res["violations"].append(dict(key="concatenate:%s" % p.kind, soft=wrapper_exc(p.value), desc="coefficients %s -> %r" % (concretize(m, cs), p.value),
                                      replay_src=REPLAY_CONCAT % dict(cs=pyrepr(concretize(m, cs)))))
    # ordering (float coercion inside: concrete structure only, values irrelevant)
    import subprocess
    import sys as _sys
    try:
        rsys = ReactionSystem([Reaction({"A": 1}, {"B": 1}), Reaction({"B": 1}, {"C": 1})], "A B C")
        arr, keys = rsys.per_substance_varied({"A": 1, "B": 2, "C": 3}, {"C": [30, 31, 32], "A": [10, 11]})
        ok = keys == ("A", "C") and arr.shape == (2, 3, 3) and all(list(arr[i, j]) == [a, 2, c] for i, a in enumerate([10, 11]) for j, c in enumerate([30, 31, 32]))
        arr2, keys2 = rsys.per_substance_varied({"A": 1, "B": 2, "C": 3}, {"C": [30, 31], "A": [10, 11]})
        ok = ok and all(list(arr2[i, j]) == [a, 2, c] for i, a in enumerate([10, 11]) for j, c in enumerate([30, 31]))
        ok = ok and list(rsys.as_per_substance_array({"C": 3.0, "A": 1.0, "B": 2.0})) == [1.0, 2.0, 3.0]
    except Exception:
        ok = False
    if ok:
        res["discharged"] += 1
    else:
        res["violations"].append(dict(key="ordering:per_substance", desc="per-substance array/dict/varied ordering", replay_src=REPLAY_CONCAT % dict(cs="[1, 2, 1]")))
    res["status"] = "violation" if res["violations"] else ("inconclusive" if res["inconclusive"] else "discharged")
    return res


def tasks(tier, seed):
    ts = [dict(id="C15.constructor", fn="task_constructor", kwargs={}, timeout=900),
          dict(id="C15.concatenate_ordering", fn="task_concatenate", kwargs={}, timeout=600)]
    fam = [(0, 3, 2, 5), (1, 2, 3, 5), (2, 2, 2, 6), (3, 2, 2, 7), (2, 2, 3, 5)]
    if tier == "thorough":
        fam += [(0, 4, 2, 5), (3, 3, 2, 7), (1, 3, 3, 5), (0, 3, 3, 6)]
    for prefix, nsym, arity, nkeys in fam:
        ts.append(dict(id="C15.split.p%d.s%d.a%d.k%d" % (prefix, nsym, arity, nkeys), fn="task_split",
                       kwargs=dict(prefix=prefix, nsym=nsym, arity=arity, nkeys=nkeys, deadline=500 if tier == "quick" else 3000),
                       timeout=900 if tier == "quick" else 4000))
    ts.append(dict(id="C15.categorize.2rx3", fn="task_categorize", kwargs=dict(nr=2, nkeys=2 if tier == "quick" else 3, hi=1000), timeout=900))
    if tier == "thorough":
        ts.append(dict(id="C15.categorize.3rx2", fn="task_categorize", kwargs=dict(nr=3, nkeys=2, hi=1000), timeout=1800))
    ts.append(dict(id="C15.equilibria.3rx2", fn="task_equilibria", kwargs=dict(nr=3, nkeys=2, hi=1000), timeout=900))
    ts.append(dict(id="C15.equilibria.2rx3", fn="task_equilibria", kwargs=dict(nr=2, nkeys=3, hi=1000), timeout=900))
    for pi, pres in enumerate([["AB", "ABC"], ["ABC", "AB"], ["AB", "BC"], ["A", "AB", "AB"], ["AB", "A", "ABC"]]):
        ts.append(dict(id="C15.equilibria.presence.%s" % "-".join(pres), fn="task_equilibria",
                       kwargs=dict(nr=len(pres), nkeys=3, hi=1000, presence=pres), timeout=1800))
    ts.append(dict(id="C15.subset.3", fn="task_subset", kwargs=dict(nr=3), timeout=300))
    ts.append(dict(id="C15.subset.3.twins", fn="task_subset", kwargs=dict(nr=3, twins=True), timeout=300))
    systems = gen.kin_systems(tier, seed)
    n = 4 if tier == "quick" else 12
    for i in range(n):
        if systems[i::n]:
            ts.append(dict(id="C15.bounds.%02d" % i, fn="task_bounds", kwargs=dict(systems=systems[i::n]), timeout=1800))
    return ts
