"""Uninterpreted-function normalisation ("argument matching").

Identities that contain applications of exp/log/sqrt/tanh/atanh/pow are not handed to the solver as UF+NRA in
one piece.  Instead the applications are collected innermost first; two applications of the same function are
merged into one class when a *separate* query proves their arguments equal under the assumptions (congruence
applied by hand); every class is replaced by a fresh real variable; and ground facts that are true of the real
functions are added per class (exp>0, exp(a)exp(-a)=1, exp(a+b)=exp(a)exp(b), sqrt(x)^2=x & sqrt(x)>=0 for x>=0,
tanh(atanh w)=w, tanh(-atanh w)=-w, |tanh|<1, exp(log x)=x for x>0, f(0) values).  The remaining goal is a
rational-function identity decided by z3's NRA.  Every step is a weakening or a true fact, so `unsat` of the
final query proves the original identity; `sat` is only a *candidate* counterexample (replayed numerically).
"""
import itertools
import time

import z3

NAMES = ("exp", "log", "sqrt", "tanh", "atanh", "pow", "cos", "sin", "log10", "cosh", "sinh")


def _depth(t, memo):
    i = t.get_id()
    if i in memo:
        return memo[i]
    d = 1 + max([_depth(c, memo) for c in t.children()] or [0])
    memo[i] = d
    return d


def collect_apps(terms, names=NAMES):
    out = []
    seen = set()

    def walk(t):
        i = t.get_id()
        if i in seen:
            return
        seen.add(i)
        for c in t.children():
            walk(c)
        if z3.is_app(t) and t.num_args() >= 1 and t.decl().kind() == z3.Z3_OP_UNINTERPRETED and t.decl().name() in names:
            out.append(t)

    for t in terms:
        walk(t)
    memo = {}
    out.sort(key=lambda a: _depth(a, memo))
    return out


class UFNorm(object):
    def __init__(self, assumptions=(), timeout_ms=10000, relate=True):
        self.assumptions = list(assumptions)
        self.timeout_ms = timeout_ms
        self.relate = relate
        self.classes = []  # (name, [substituted args], var, representative app)
        self.subst = []
        self.facts = []
        self.stats = dict(arg_queries=0, classes=0, solver_s=0.0, facts=0)

    # ------------------------------------------------------------------
    def _valid(self, claim):
        """True iff assumptions (substituted) + facts => claim is proved (staged: simplifier, identity without
        hypotheses, then with assumptions and facts)"""
        t0 = time.time()
        sc = z3.simplify(claim)
        if z3.is_true(sc):
            return True
        if z3.is_false(sc):
            return False
        s0 = z3.Solver()
        s0.set("timeout", max(500, self.timeout_ms // 10))
        s0.add(z3.Not(claim))
        self.stats["arg_queries"] += 1
        r0 = str(s0.check())
        if r0 == "unsat":
            self.stats["solver_s"] += time.time() - t0
            return True
        s = z3.Solver()
        s.set("timeout", self.timeout_ms)
        s.add(*self._sub_all(self.assumptions))
        s.add(*self.facts)
        s.add(z3.Not(claim))
        r = str(s.check())
        self.stats["arg_queries"] += 1
        self.stats["solver_s"] += time.time() - t0
        return r == "unsat"

    def _sub(self, t):
        return z3.substitute(t, *self.subst) if self.subst else t

    def _sub_all(self, ts):
        return [self._sub(t) for t in ts]

    def _fact(self, *fs):
        self.facts.extend(fs)
        self.stats["facts"] += len(fs)

    # ------------------------------------------------------------------
    def normalize(self, terms):
        """returns the terms with every known UF application replaced by its class variable"""
        apps = collect_apps(list(terms) + self.assumptions)
        for a in apps:
            if any(a.eq(old) for old, _ in self.subst):
                continue
            name = a.decl().name()
            args = [self._sub(c) for c in a.children()]
            placed = False
            for cname, cargs, var, _ in self.classes:
                if cname == name and len(cargs) == len(args):
                    if all(x.eq(y) for x, y in zip(cargs, args)) or self._valid(z3.And(*[x == y for x, y in zip(cargs, args)])):
                        self.subst.append((a, var))
                        placed = True
                        break
            if placed:
                continue
            var = z3.Real("%s#%d" % (name, len(self.classes)))
            self.classes.append((name, args, var, a))
            self.subst.append((a, var))
            self.stats["classes"] += 1
            self._class_facts(name, args, var)
        if self.relate:
            self._relations()
        return [self._sub(t) for t in terms]

    def _class_of(self, name):
        return [(args, var) for n, args, var, _ in self.classes if n == name]

    def _class_facts(self, name, args, var):
        x = args[0]
        zero = z3.RealVal(0)
        if name == "exp":
            self._fact(var > 0)
            if self._valid(x == 0):
                self._fact(var == 1)
            elif self._valid(x <= 0):
                self._fact(var <= 1)
            elif self._valid(x >= 0):
                self._fact(var >= 1)
            else:
                self._fact(z3.Implies(x <= 0, var <= 1), z3.Implies(x >= 0, var >= 1))
            # exp(log(y)) = y
            for largs, lvar in self._class_of("log"):
                if x.eq(lvar) or self._valid(x == lvar):
                    self._fact(z3.Implies(largs[0] > 0, var == largs[0]))
        elif name == "sqrt":
            if self._valid(x > 0):
                self._fact(var * var == x, var > 0)
            else:
                self._fact(z3.Implies(x >= 0, z3.And(var * var == x, var >= 0)))
        elif name == "log":
            if self._valid(x == 1):
                self._fact(var == 0)
            for eargs, evar in self._class_of("exp"):
                if x.eq(evar) or self._valid(x == evar):
                    self._fact(var == eargs[0])
        elif name == "tanh":
            self._fact(var < 1, var > -1)
            if self._valid(x == 0):
                self._fact(var == 0)
            for aargs, avar in self._class_of("atanh"):
                w = aargs[0]
                if x.eq(avar) or self._valid(x == avar):
                    self._fact(z3.Implies(z3.And(w > -1, w < 1), var == w))
                elif self._valid(x == -avar):
                    self._fact(z3.Implies(z3.And(w > -1, w < 1), var == -w))
        elif name == "atanh":
            if self._valid(x == 0):
                self._fact(var == 0)
        elif name == "cos":
            self._fact(var <= 1, var >= -1)
            if self._valid(x == 0):
                self._fact(var == 1)
        elif name == "sin":
            self._fact(var <= 1, var >= -1)
            if self._valid(x == 0):
                self._fact(var == 0)
        elif name == "cosh":
            self._fact(var >= 1)
        elif name == "pow":
            b, e = args
            self._fact(z3.Implies(b > 0, var > 0))
            if self._valid(e == 0):
                self._fact(var == 1)
            elif self._valid(e == 1):
                self._fact(var == b)
            for sargs, svar in self._class_of("sqrt"):
                if (b.eq(sargs[0]) or self._valid(b == sargs[0])):
                    for k in (1, 3, -1, -3, 5):
                        if self._valid(2 * e == k):
                            self._fact(z3.Implies(b > 0, var == (svar ** k if k > 0 else 1 / svar ** (-k))))

    def _relations(self):
        exps = self._class_of("exp")
        for (a1, v1), (a2, v2) in itertools.combinations(exps, 2):
            if self._valid(a1[0] + a2[0] == 0):
                self._fact(v1 * v2 == 1)
            else:
                for k in (2, 3):
                    if self._valid(a1[0] == k * a2[0]):
                        self._fact(v1 == v2 ** k)
                    elif self._valid(a2[0] == k * a1[0]):
                        self._fact(v2 == v1 ** k)
        if len(exps) >= 3 and len(exps) <= 8:
            for i, (ai, vi) in enumerate(exps):
                for (j, (aj, vj)), (k, (ak, vk)) in itertools.combinations(list(enumerate(exps)), 2):
                    if i in (j, k):
                        continue
                    if self._valid(ai[0] == aj[0] + ak[0]):
                        self._fact(vi == vj * vk)
        # exp monotone: a <= b => exp(a) <= exp(b) is not added by default (keeps queries small)
        logs = self._class_of("log")
        for (a1, v1), (a2, v2) in itertools.combinations(logs, 2):
            pass

    # ------------------------------------------------------------------
    def prove(self, goal, extra=(), timeout_ms=None):
        """goal: z3 Bool over the original terms. Returns (verdict, model, stats)"""
        (g,) = self.normalize([goal])
        t0 = time.time()
        s = z3.Solver()
        s.set("timeout", timeout_ms or 3 * self.timeout_ms)
        s.add(*self._sub_all(self.assumptions))
        s.add(*self._sub_all(list(extra)))
        s.add(*self.facts)
        s.add(z3.Not(g))
        r = str(s.check())
        self.stats["solver_s"] += time.time() - t0
        from . import crosscheck

        if crosscheck.enabled():
            crosscheck.check(list(s.assertions()), r)
        return r, (s.model() if r == "sat" else None)
