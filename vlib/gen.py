"""Structure generators shared by the checks (structures only - values stay symbolic)."""
import itertools
import random

# balanced kinetic steps written as formulas (compositions come from the real parser)
KIN_POOL = [
    "H2O -> H+ + OH-",
    "H+ + OH- -> H2O",
    "2 HNO2 -> H2O + NO + NO2",
    "2 NO2 -> N2O4",
    "N2O4 -> 2 NO2",
    "Fe+3 + SCN- -> FeSCN+2",
    "FeSCN+2 -> Fe+3 + SCN-",
    "NH4+ -> NH3 + H+",
    "NH3 + H+ -> NH4+",
    "Cu+2 + NH3 -> CuNH3+2",
    "CuNH3+2 + NH3 -> Cu(NH3)2+2",
    "2 H2O2 -> 2 H2O + O2",
    "H2 + O2 -> H2O2",
    "2 H2 + O2 -> 2 H2O",
    "NO + NO2 + H2O -> 2 HNO2",
    "Fe+2 + H2O2 -> Fe+3 + OH- + OH",
    "OH + OH -> H2O2",
    "H2O2 + OH -> HO2 + H2O",
    "Fe+3 + HO2 -> Fe+2 + O2 + H+",
    "HSO4- -> H+ + SO4-2",
    "H+ + SO4-2 -> HSO4-",
    "CO2 + H2O -> H2CO3",
    "H2CO3 -> HCO3- + H+",
    "HCO3- -> CO3-2 + H+",
    "N2O4 + (H2O) -> HNO2 + HNO3",
]

# homogeneous + precipitation equilibria: (string, log10 K placeholder)
EQ_POOL = [
    "H2O = H+ + OH-",
    "NH4+ = NH3 + H+",
    "Cu+2 + NH3 = CuNH3+2",
    "CuNH3+2 + NH3 = Cu(NH3)2+2",
    "Cu(NH3)2+2 + NH3 = Cu(NH3)3+2",
    "HSO4- = H+ + SO4-2",
    "H2CO3 = HCO3- + H+",
    "HCO3- = CO3-2 + H+",
    "Fe+3 + SCN- = FeSCN+2",
    "FeSCN+2 + SCN- = Fe(SCN)2+",
    "HNO2 = H+ + NO2-",
    "2 NO2 = N2O4",
    "Ag+ + 2 NH3 = Ag(NH3)2+",
    "H3PO4 = H2PO4- + H+",
    "H2PO4- = HPO4-2 + H+",
    "Fe+3 + H2O = FeOH+2 + H+",
    "2 Fe+3 + 2 H2O = Fe2(OH)2+4 + 2 H+",
    "Fe(CN)6-4 + Ce+4 = Fe(CN)6-3 + Ce+3",
    "H + O2 + N2 = HO2 + N2",
]
PRECIP_POOL = [
    "NaCl(s) = Na+ + Cl-",
    "AgCl(s) = Ag+ + Cl-",
    "Cu(OH)2(s) = Cu+2 + 2 OH-",
    "CaCO3(s) = Ca+2 + CO3-2",
]


def kin_systems(tier, seed, max_quick=16, max_thorough=120):
    """lists of reaction strings: all singles/pairs that share a species (exhaustive), plus seeded larger ones"""
    rnd = random.Random(seed)
    out = [[s] for s in KIN_POOL]

    def keys(s):
        import re

        return set(t for t in re.split(r"[\s\+\(\)]+|->", s) if t and not t.isdigit())

    pairs = [[a, b] for a, b in itertools.combinations(KIN_POOL, 2) if keys(a) & keys(b)]
    rnd.shuffle(pairs)
    big = []
    for n in (3, 4, 5, 6):
        for _ in range(40):
            pick = rnd.sample(KIN_POOL, n)
            big.append(pick)
    if tier == "quick":
        sel = out[:6] + pairs[: max_quick - 8] + big[:2]
    else:
        sel = out + pairs[: max_thorough // 2] + big[: max_thorough // 2]
    return sel


def eq_systems(tier, seed, precip=False):
    rnd = random.Random(seed + 7)
    pool = EQ_POOL
    out = [[s] for s in pool[:4]] + [[pool[-2]], [pool[-1]], [pool[11]]]
    combos = []
    for n in (2, 3) if tier == "quick" else (2, 3, 4, 5):
        for _ in range(200):
            pick = sorted(rnd.sample(range(len(pool)), n))
            if pick not in combos:
                combos.append(pick)
    rnd.shuffle(combos)
    sel = combos[: (10 if tier == "quick" else 80)]
    out += [[pool[i] for i in c] for c in sel]
    if precip:
        pout = []
        for p in PRECIP_POOL:
            pout.append([p])
            pout.append([p, "H2O = H+ + OH-"])
            pout.append(["H2O = H+ + OH-", p])  # the phase-transfer reaction is not the first one
        return pout
    return out


def subsets(items, kmin, kmax):
    for k in range(kmin, kmax + 1):
        for c in itertools.combinations(items, k):
            yield list(c)
