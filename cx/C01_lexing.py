"""CrossHair harnesses for C01 (outer lexing layer): charge tokens, prefix/suffix/charge splitting, leading hydrate counts."""
from chempy.util.parsing import _get_charge, _formula_to_parts, _get_leading_integer, _latex_mapping

PREFIXES = tuple(_latex_mapping.keys())
SUFFIXES = ("(s)", "(l)", "(g)", "(aq)")


def _h_get_charge(n: int, neg: bool) -> bool:
    """
    pre: 1 <= n <= 999
    post: _
    """
    sign = "-" if neg else "+"
    return _get_charge(sign + str(n)) == (-n if neg else n) and _get_charge("+") == 1 and _get_charge("-") == -1


def _grammatical_tail(t):
    return len(t) >= 1 and t[0] in "+-" and all(c in "012" for c in t[1:])


def _h_charge_tail(t: str) -> bool:
    """
    pre: 1 <= len(t) <= 4
    pre: all(c in "+-012" for c in t)
    pre: t[0] in "+-"
    post: _
    """
    return _charge_tail_ok(t)


def _charge_tail_ok(t):
    try:
        parts = _formula_to_parts("Fe" + t, PREFIXES, SUFFIXES)
        stoich, chg = parts[0], parts[1]
        val = None if chg is None else _get_charge(chg)
    except ValueError:
        return not _grammatical_tail(t)
    if _grammatical_tail(t):
        mag = t[1:]
        exp = (1 if mag == "" else int(mag)) * (1 if t[0] == "+" else -1)
        return stoich == "Fe" and val == exp
    # not a charge token of the grammar: acceptable only if a sign character is left in the stoichiometric part, where no token of
    # the grammar can start with it (L1), so the parse fails
    return ("+" in stoich) or ("-" in stoich)


def _h_charge_tail_junk(t: str) -> bool:
    """
    pre: 1 <= len(t) <= 3
    pre: all(c in "+-1X)" for c in t)
    pre: t[0] in "+-"
    post: _
    """
    # the same contract over an alphabet with a non-element capital and a closing bracket: text after the charge digits is never dropped
    return _charge_tail_ok(t)


def _parts_ok(core, prefix, suffix, q):
    chg = "" if q == 0 else (("+" if q > 0 else "-") + (str(abs(q)) if abs(q) != 1 else ""))
    parts = _formula_to_parts(prefix + core + chg + suffix, PREFIXES, SUFFIXES)
    return (parts[0] == core and parts[1] == (chg if chg else None) and parts[2] == ((prefix,) if prefix else ())
            and parts[3] == ((suffix,) if suffix else ()))


def _h_parts_all_prefixes(q: int) -> bool:
    """
    pre: -99 <= q <= 99
    post: _
    """
    for prefix in PREFIXES:
        for suffix in SUFFIXES:
            if not _parts_ok("Fe2O3", prefix, suffix, q):
                return False
    return True


GREEK = ("alpha", "beta", "gamma", "delta", "epsilon", "zeta", "eta", "theta", "iota", "kappa", "lambda", "mu", "nu", "xi", "omicron",
         "pi", "rho", "sigma", "tau", "upsilon", "phi", "chi", "psi", "omega")


def _h_parts_greek_radical(q: int) -> bool:
    """
    pre: -99 <= q <= 99
    post: _
    """
    # a greek prefix followed by the radical dot (e.g. 'alpha-.NO2'): both are prefixes, the core and the charge are what is left
    chg = "" if q == 0 else (("+" if q > 0 else "-") + (str(abs(q)) if abs(q) != 1 else ""))
    for g in GREEK:
        parts = _formula_to_parts(g + "-." + "NO2" + chg + "(g)", PREFIXES, SUFFIXES)
        if not (parts[0] == "NO2" and parts[1] == (chg if chg else None) and tuple(parts[2]) == (g + "-", ".") and tuple(parts[3]) == ("(g)",)):
            return False
    return True


def _h_leading_integer(m: int) -> bool:
    """
    pre: 0 <= m <= 999
    post: _
    """
    for rest in ("H2O", "", "(H2O)2"):
        if _get_leading_integer(str(m) + rest) != (m, rest) or _get_leading_integer(rest) != (1, rest):
            return False
    return True
