#!/usr/bin/env python3
"""Regenerates MANIFEST.json from the table below (single source of truth for what is claimed)."""
import json
import os

HERE = os.path.dirname(os.path.dirname(os.path.abspath(__file__)))
props = [json.loads(l) for l in open(os.path.join(HERE, "properties.jsonl"))]

Z = "symbolic execution of the real chempy functions on z3-backed duck-typed numbers (fork per branch) + SMT (z3) validity query per path"

CHECKS = {
    "C03": dict(
        engine="Z", category="other",
        text="bounded symbolic verification: Reaction.rate, ReactionSystem.rates (+CSTR feed), law_of_mass_action_rates/dCdt_list and "
             "the stoichiometry matrices are executed with symbolic concentrations/rate constants (reals) and symbolic stoichiometric "
             "coefficients (bounded ints); on every path z3 proves each returned entry equal to the statement's formula, for every "
             "key-presence structure within the stated bounds",
        note="identity over the reals; coefficients in 0..3, <= 3 reactions, <= 4 keys; int() and numpy.zeros(dtype=int) stubbed by "
             "symbol-preserving versions (listed in evidence); float rounding and RateExpr parameters other than plain/named mass "
             "action are outside (C16)",
        technique=Z, ref="DESIGN.md section 5 C03"),
    "C05": dict(
        engine="Z+S", category="other",
        text="bounded symbolic verification: (Z) ReactionSystem construction runs on symbolic compositions and coefficients; on every path "
             "z3 proves accepted <=> every key balanced in every reaction, the ValueError names a really violated key, the reported "
             "composition vectors equal the compositions (also after a query/sort/query history) and B*(N^T r)=0 for arbitrary reaction "
             "rates r; (S) on generated systems the real get_odesys/linear_dependencies pipeline runs in sympy mode and z3 (LRA) proves "
             "each offered elimination from B*y=B*y0 and that it is a genuine elimination",
        note="compositions/coefficients range over real intervals containing the integer inputs (3 substances, keys {0,1,8}, <=3 reactions); "
             "Reaction.string stubbed on instances (message formatting); 'numerical integration keeps invariants to tolerance' is delegated "
             "to LSODA/CVODE and not claimed; one known finding (circular eliminations for >=2 preferred substances)",
        technique=Z + "; sympy->z3 translation validation of the generated eliminations (z3 LRA)", ref="DESIGN.md section 5 C05"),
    "C14": dict(
        engine="Z+X", category="other",
        text="bounded symbolic verification: the real mass_from_composition runs once on a composition with 119 symbolic real counts "
             "(charge + all 118 elements) and one z3 LRA query proves the result equal, within a per-element tolerance, to sum n_i*W_i - "
             "q*m_e with W_i from an independently written reference table (covers every table entry, the index<->Z mapping and the sign "
             "of the electron term at once); Substance.mass (repeated reads, data override) and mass_fractions on symbolic "
             "coefficients/masses are proved equal to their definitions; atomic_number(symbol/name, any case) is confirmed by CrossHair "
             "over a symbolic table index",
        note="reference table ref/atomic_weights.json with tolerance 5e-4 relative (3% for Z>=104); additivity over hydrate parts/groups is "
             "C01 + the linearity proved here (not re-proved end-to-end); float summation error outside",
        technique=Z + "; CrossHair for the string lookups", ref="DESIGN.md section 5 C14"),
    "C15": dict(
        engine="Z", category="other",
        text="bounded symbolic verification: split/substance_participation are executed on reactions whose species are symbolic indices "
             "(every feasible reaction graph within the bound is visited through solver-decided forks and compared with a union-find oracle); "
             "categorize_substances, identify_equilibria, per_reaction_effect_on_substance run on symbolic integer coefficients and z3 proves "
             "the returned sets equal their definitions on every path; subset/+/+=/== with a symbolic predicate; upper_conc_bounds with "
             "symbolic initial concentrations: z3 (LRA) proves bound = min(total/atoms) and that no non-negative state with the same "
             "element totals exceeds it, also for other container kinds of the state (reversed OrderedDict, list, tuple, defaultdict with a symbolic non-zero default that lists one species only)",
        note="split: <= 3 canonical disjoint + <= 3 symbolic reactions over <= 7 keys (each path is one concrete graph: bounded exhaustive); "
             "coefficients 0..1000; generated formula systems for the bounds; decompose_yields (numpy lstsq) and float coercion of "
             "as_per_substance_array are outside",
        technique=Z, ref="DESIGN.md section 5 C15"),
    "C17": dict(
        engine="Z", category="other",
        text="bounded symbolic verification: the seven real closed-form functions are executed on z3-backed dual numbers (value and "
             "d/dt), and z3 (NRA, after sound UF normalisation) proves d/dt f = documented rate equation and f(0) = stated initial "
             "concentration for ALL positive parameters and t >= 0; on a time grid (array of symbolic instants) the result equals the "
             "scalar evaluation, leaves the caller's array untouched and is the same on a second evaluation; the same with each PARAMETER in turn given as an array of two symbolic values; a solver model is turned into a concrete witness and replayed "
             "through the public API with sympy before it is reported",
        note="identity over the reals (float rounding outside); domain assumptions listed in evidence (major>minor for binary_irrev, "
             "|atanh arg|<1 for binary_irrev_cstr); trusted: z3, the chain rules in vlib/dual.py and the ground facts about "
             "exp/sqrt/tanh/atanh in vlib/ufnorm.py; the default backend (None -> numpy) is exercised symbolically, other backends are "
             "not claimed",
        technique="symbolic execution of the real functions on z3-backed dual numbers + SMT (z3 NRA) validity queries",
        ref="DESIGN.md section 5 C17"),
}

CHECKS["C19"] = dict(
    engine="Z", category="other",
    text="bounded symbolic verification: each correlation / closed-form relation is executed on z3 reals in unitless mode and with a "
         "units namespace whose base units are free positive reals (plus constants objects built on it); z3 proves "
         "units_result == unitless_result * unit for ALL unit scales (same physical value in any compatible units, result dimension), "
         "the defining formula, 'range warning <=> input outside the documented range' on every path, inverse helpers, and shape lemmas "
         "(density maximum at 3.98 C, viscosity decreasing); published anchor values by exact evaluation of the executed term",
    note="idealised units stub (commutative group with real scaling): behaviour of the real `quantities` package that deviates from it "
         "(the statement's Nernst example: math.log of an unsimplified quantity) is outside; the VALUE of sulfuric_acid_density and "
         "density_from_concentration (float()/numpy/iteration) not applicable (its range warnings are claimed); transcendental functions uninterpreted + ground facts; "
         "temperatures within [0.8*lo, 1.2*hi] of each range",
    technique=Z + " with uninterpreted transcendental functions and argument matching", ref="DESIGN.md section 5 C19")

CHECKS["C18"] = dict(
    engine="Z", category="other",
    text="bounded symbolic verification: ionic_strength (list/dict/array forms), A, B, limiting/extended/Davies log-gamma and the "
         "activity products are executed on z3 reals with symbolic integer charges -4..4; z3 proves the definitions, "
         "permutation/merge/scaling invariance, 'neutrality warning <=> not neutral', agreement of the numeric-constant path of A and B "
         "with the constants-object path within 1e-5 relative for ALL positive (eps_r, T, rho, b0) and unit scales, unit-scale "
         "invariance/dimension of A and B, and the limiting cases of the extended formula",
    note="idealised units stub; sqrt/half-integer powers and exp uninterpreted with ground facts (vlib/ufnorm.py); 2-4 ions; CODATA "
         "values for the two-path comparison; real-`quantities` inputs outside",
    technique=Z + " with uninterpreted sqrt/exp and argument matching", ref="DESIGN.md section 5 C18")

CHECKS["C16"] = dict(
    engine="Z", category="other",
    text="bounded symbolic verification: arrhenius/eyring equations and parameter sets (incl. round trip from a known rate constant and "
         "as_RateExpr inside Reaction.rate), the rate-expression classes, temperature polynomials and piecewise definitions are executed "
         "on z3 reals with exp/sin uninterpreted - unitless, with free-positive-real unit symbols and with symbolic constants objects - "
         "and z3 proves each equal to its defining formula for all arguments; every operator tree up to depth 2 (3 in thorough) built "
         "with the real Expr overloads evaluates to the same arithmetic on its operands; named overrides replace exactly their argument",
    note="backend independence = the result is one term over backend.exp/... for any backend providing them; units independence = "
         "invariance under all positive unit scales (idealised stub); hard-coded R and kB/h compared with CODATA (2e-6); fitting routines "
         "(numpy/scipy) not applicable; real-`quantities` evaluation outside",
    technique=Z + " with uninterpreted transcendental functions and argument matching", ref="DESIGN.md section 5 C16")

CHECKS["C07"] = dict(
    engine="S", category="translation_validation",
    text="translation validation per generated equilibrium system x {NumSysLin, NumSysLog, NumSysSquare, NumSysLinRel} x (rref_equil, "
         "rref_preserv): the real residual builder runs in sympy mode on symbols, its output is translated to z3 and proved equivalent "
         "to the specification in both directions - equilibrium block in log space (residuals = 0 <=> A*log c = log K), conservation "
         "block (residuals = 0 <=> B*c = B*c0), transformed variants as f_X(y) == f_Lin(g(y)) - plus the equation count; a second "
         "evaluation of the same instance with other constants must not be influenced by the first; precipitation systems with the solid "
         "declared present (Ksp over the dissolved species) or absent (amount pinned to `small`); a species with a fractional composition; EqSystem.equilibrium_quotients (also batched); one concrete sanity task evaluates the builders on exact rational numbers",
    note="positive concentrations/constants; sympy.expand_log(force=True) trusted for log(prod c^a)=sum a*log c; sympy Matrix.rank used by "
         "the count oracle; systems of 1-3 (thorough 1-5) equilibria from a pool of 18; NumSysLinTanh (not constructible on the pinned "
         "tree, not in the statement's list) outside; expressions the translator cannot read fall back to a concrete replay (never a "
         "silent pass)",
    technique="chempy's own sympy-mode residual builders as front-end, sympy->z3 translation, z3 (LRA/NRA) equivalence proofs per generated system",
    ref="DESIGN.md section 5 C07")

CHECKS["C04"] = dict(
    engine="S", category="translation_validation",
    text="translation validation per generated reaction system x build configuration (rate constants inlined / named / Arrhenius with and "
         "without unique keys / ArrheniusParam / active substitution (RampedTemp) / substitution vs constants object / CSTR / both builders "
         "/ rebuild after reassigning rate constants / CSTR keys given as a list / float coefficients): the real get_odesys and _create_odesys run through the real pyodesys SymbolicSys, "
         "and z3 proves each generated right-hand side equal, as a real identity in concentrations and free parameters, to "
         "sum_r N[r,i]*rate_r from an independent oracle; names / param_names / equation order are compared, and binding the free "
         "parameters is proved to give the inlined build",
    note="exp uninterpreted (argument matching); all single reactions over 2 keys with coefficients 0..2 + seeded systems (<=3 reactions, "
         "<=4 keys; thorough <=5/<=6); pyodesys' numeric callbacks (f_cb, lambdified rate_exprs_cb) outside; zero-order steps with a bare "
         "number and systems with spectator substances are rejected by the builders and outside the quantifier",
    technique="chempy's own symbolic ODE builders as front-end, sympy->z3 translation, z3 validity proof per generated equation",
    ref="DESIGN.md section 5 C04")

CHECKS["C06"] = dict(
    engine="Z", category="other",
    text="bounded symbolic verification of the ONE solver-checkable sentence of C06 - the advertised safe explicit-Euler step: the real "
         "closure returned by get_odesys is executed with a symbolic state y >= 0 and the derivative N^T r for ARBITRARY non-negative "
         "reaction rates r (f_cb stubbed; superset of the mass-action right-hand side); the elemental upper bound is written independently "
         "from the compositions (infinite for species without elemental composition); z3 proves "
         "0 <= h <= 1 and 0 <= y_i + h*f_i <= ub_i on every path, for the answer to a query that follows an earlier query of the same "
         "callback for another state and for the same query repeated on the caller's own array",
    note="NOT claimed (not applicable to this technique): agreement of integrated trajectories with matrix exponentials / closed forms, "
         "non-negativity of integrated trajectories - these run inside LSODA/CVODE through pyodesys where no symbolic value survives; "
         "stubs: odesys.to_arrays/pre_process pass-through, f_cb = N^T r with r >= 0, upper_conc_bounds called with dtype=object; systems "
         "with <= 5 substances",
    technique=Z, ref="DESIGN.md section 5 C06")

CHECKS["C08"] = dict(
    engine="Z", category="other",
    text="bounded symbolic verification of the predicates behind 'success and sane' only: _result_is_sane(c0, x) on symbolic x and c0 "
         "returns True <=> (x >= 0 and x <= (1+1e-9)*min_e(total_e/atoms_e)), with the bound written independently from the compositions; "
         "dissolved(x) removes the solid and conserves every element and charge; the forward/backward precipitation switching conditions "
         "are equivalent to the Ksp comparison of the statement in both orientations of the dissolution equilibrium (phase-transfer "
         "reaction first or not); the concentrations REPORTED for a solver variable y (post_processor of each NumSys class) equal the "
         "substitution c = g(y) under which C07 proves the residuals",
    note="NOT claimed (not applicable to this technique): that a converged numerical root satisfies Q=K / conservation to tolerance, the "
         "19-of-20 success rate, agreement with the brentq scalar solver - properties of MINPACK/KINSOL/scipy runs on floats; stub: "
         "upper_conc_bounds called with dtype=object; systems with <= 5 (thorough 7) species",
    technique=Z, ref="DESIGN.md section 5 C08")

CHECKS["C10"] = dict(
    engine="Z", category="other",
    text="bounded symbolic verification of the dimension bookkeeping only: args_dimensionality of MassAction/Arrhenius/Eyring for a "
         "symbolic reaction order equals concentration^(1-order)/time (plus the documented temperature entries); get_derived_unit in a "
         "registry of free positive reals equals product(base^SI exponent) for every key; get_odesys(unit_registry=such a registry) "
         "reports parameter units (p_units) consistent with them for orders 1..3 - for ALL registries; each query is repeated after the "
         "others (no result depends on what was asked before)",
    note="NOT claimed (not applicable to this technique): a reaction accepts a unit-carrying rate constant iff its dimension is right "
         "(check_consistent_units) and registry independence of f_cb/integrate/output rescaling - these execute `quantities` arithmetic on "
         "floats, where no symbolic value survives",
    technique=Z, ref="DESIGN.md section 5 C10")

CHECKS["C02"] = dict(
    engine="Z", category="other",
    text="bounded symbolic verification of ONE mechanism of C02 - the per-component presence pre-check: balance_stoichiometry runs on "
         "species with symbolic composition entries up to the construction of the sympy matrix; on every path ending in the pre-check's "
         "ValueError z3 proves that A*x = 0 has no solution with all x >= 1, i.e. the pre-check never refuses a placement that positive "
         "coefficients can balance; on every path that reaches the solver the matrix handed to it is proved to be the full signed "
         "composition matrix (one row per element and one for the net charge)",
    note="NOT claimed (outside the reach of this technique): that returned coefficients are balanced / positive / coprime / minimal, "
         "refusal of every unbalanceable placement (e.g. 'C + CO -> CO2' returns -1 on the pinned tree), duplicate handling - the code "
         "after the pre-check runs inside sympy.linsolve and the PuLP/CBC subprocess; r+p <= 4 species, <= 3 composition keys",
    technique=Z, ref="DESIGN.md section 5 C02")

CHECKS["C11"] = dict(
    engine="Z", category="other",
    text="bounded symbolic verification: n*e1 + m*e2, n*e1 - e2, (n*e1 + e2) - m*e3, e*n, -e are executed with the real Equilibrium "
         "operators on symbolic integer multipliers (-3..3) and symbolic coefficients (1..3) for all ordered pairs of 7 operand shapes "
         "(incl. a species on both sides of an operand); the constant is a value type recording the exponent of each operand's constant. "
         "z3 proves on every path: net stoichiometry = the integer combination, every listed coefficient > 0, netted form after +/-, "
         "constant = product K_i^n_i; the same object scaled twice and negation/difference before and after a param reassignment "
         "(history). eliminate/cancel on solver-forked coefficient values |c| <= 6 (bounded exhaustive); as_reactions "
         "kb = kf/(K c0^dnu) on reals",
    note="stubs: chempy.chemistry.int -> identity on integer symbols; multiplier 0 / combinations netting to nothing raise ValueError "
         "(accepted, outside the quantifier); operands without inactive parts; chains of <= 3 operations (thorough 4)",
    technique=Z, ref="DESIGN.md section 5 C11")

CHECKS["C20"] = dict(
    engine="Z+X", category="other",
    text="bounded symbolic verification of the parts of C20 that do not go through C float formatting: roman(n) executed on a symbolic "
         "integer - one z3 query proves for all 1..3999 that token values sum to n with canonical token counts; the LaTeX/Unicode/HTML "
         "power-of-ten renderers and the significand/exponent split of _number_to_X (formatter stubbed) are confirmed by CrossHair over "
         "all paths for every exponent -300..300 and nine significand spellings incl. '1', '1.0' and negative ones (omission rule, "
         "exponent read back digit by digit); when the implementation of roman does not keep segment strings the same claim is decided "
         "by solver-forked exploration (3999 paths); a concrete call-sequence sanity task (not solver evidence) covers unit placement",
    note="NOT claimed (not applicable): what '%.Ng' prints for a float and _float_str_w_uncert (log10/floor/round on floats, C "
         "formatting) - no symbolic float survives '%'; unit strings come from the `quantities` package",
    technique=Z + "; CrossHair (symbolic execution with z3) for the string renderers", ref="DESIGN.md section 5 C20")

CHECKS["C12"] = dict(
    engine="X", category="other",
    text="bounded symbolic verification with CrossHair (symbolic execution of the real from_string / to_reaction / _parse_multiplicity / "
         "printer code, z3 per path, 'Confirmed over all paths'): coefficients are symbolic integers 1..1000 rendered into the line; each "
         "harness states the exact expected dictionaries for 'n K', 'n * K', bare keys, repeated species (summed), '(n K)' inactive groups, "
         "the arrow of each class, allowed-key rejection, quoted parameter names and keyword parts, print->parse round trip and copy "
         "equality, over six pairs of tricky space-free keys (leading brackets, charges, phases, primes, radicals, greek prefixes); one "
         "harness over a fully symbolic key string",
    note="<= 2 symbolic integers per harness; symbolic key string of length <= 2 (thorough 3) over the alphabet 'A(2)-['; parameters "
         "'to printed precision' (%.3g floats) and unit-carrying parameters are not applicable; eval of parameter expressions is "
         "exercised with concrete text only",
    technique="CrossHair symbolic execution (z3) of PEP316 contract harnesses calling the real API", ref="DESIGN.md section 5 C12")

CHECKS["C13"] = dict(
    engine="X", category="other",
    text="bounded symbolic verification with CrossHair ('Confirmed over all paths'): the three real renderers (regex substitution on the "
         "raw text) are compared with a structural token-level renderer written from the statement, over symbolic counts, decimal counts, "
         "charges of both signs (1 omitted, magnitude-then-sign), hydrate multipliers with one and two separators in both spellings, every "
         "greek / radical prefix chosen by a symbolic table index against an independently written table, whole symbolic formula strings "
         "over the alphabet {H,O,2,3,+} restricted to the grammar, and Reaction/Equilibrium rendering with symbolic coefficients "
         "(omitted iff 1, stored order, arrow per format); phase index / names of created species over all suffixes (finite table)",
    note="one symbolic integer per harness (counts <= 99 quick / 999 thorough, charges <= 99); whole strings of length <= 4 (thorough 5); "
         "the composition half of the statement is C01; Species.from_formula with an '(aq)' suffix on an ion raises on the pinned tree "
         "(its default phases do not include '(aq)') - recorded as an observation in DESIGN.md",
    technique="CrossHair symbolic execution (z3) of PEP316 contract harnesses calling the real renderers", ref="DESIGN.md section 5 C13")

CHECKS["C01"] = dict(
    engine="R+Z+X", category="other",
    text="three-layer bounded symbolic verification of the real parser: (R) the token regexes read from the LIVE pyparsing grammar are "
         "translated from CPython's sre IR to z3 - element language == the 118 reference symbols, ordered-choice match length on every 2- "
         "and 3-character window == longest symbol prefix (Co vs CO, non-element capitals start no term), count regex == maximal numeral; "
         "(Z) the real grammar + parse actions + hydrate/charge code run on ~700 (thorough ~42000) generated formula skeletons whose numerals "
         "are placeholders bound to z3 variables, and z3 proves every returned composition entry equal to the value of the generated "
         "derivation tree for ALL numeral values; (X) CrossHair confirms the charge / prefix / suffix / leading-count string helpers",
    note="stubs: chempy.util.parsing.float/.int injected (numerals denote z3 variables; digit lexing is the R and X layers); skeleton "
         "elements are an adjacency-critical set of 10, all-elements coverage is the R layer; combining the layers into the end-to-end "
         "statement is an informal argument; rejection of unbalanced brackets is checked by concrete replays only (sanity, not solver "
         "evidence); non-ASCII digits outside",
    technique="sre->z3 regex translation; symbolic execution of the real grammar on numeral placeholders with z3 (Engine Z); CrossHair",
    ref="DESIGN.md section 5 C01")

NA = {
    "C09": "property is about float conversion factors produced inside the 'quantities' package and numpy array helpers; no symbolic "
           "value survives to_unitless (float(result)), and symbolic magnitudes alone would only re-prove linearity (DESIGN.md section 6)",
}

man = {
    "version": 1,
    "setup_cmd": "./check --bootstrap",
    "hooks": {
        "guard": "CHEMPY_VERIF",
        "enable": "no source hooks are needed: all stubs are injected from outside (backend=/units=/constants= parameters, instance "
                  "attributes, module-global name injection); the checks export CHEMPY_VERIF=1 for completeness",
        "baseline_off_cmd": "cd /repo && /venv/bin/python -m pytest -ra -q -p no:cacheprovider --timeout=900 --continue-on-collection-errors",
        "source_commits": [],
        "add_only": True,
    },
    "engines": [
        {"name": "Z", "path": "vlib/zsym.py", "serves_properties": sorted(k for k, v in CHECKS.items() if "Z" in v["engine"]),
         "kind_free_text": "z3-backed duck-typed numbers executing the real chempy functions; fork-on-bool path exploration; UF "
                           "normalisation (vlib/ufnorm.py); forward-mode AD (vlib/dual.py)"},
        {"name": "S", "path": "vlib/s2z.py", "serves_properties": sorted(k for k, v in CHECKS.items() if "S" in v["engine"]),
         "kind_free_text": "chempy's own sympy mode (pyodesys/pyneqsys symbolic pipelines) as front-end, sympy->z3 translation, z3 decides"},
        {"name": "X", "path": "vlib/cxrun.py", "serves_properties": sorted(k for k, v in CHECKS.items() if "X" in v["engine"]),
         "kind_free_text": "CrossHair 0.0.110 (symbolic execution of Python with z3) on PEP316 contract harnesses calling the real API"},
        {"name": "R", "path": "vlib/rx.py", "serves_properties": sorted(k for k, v in CHECKS.items() if "R" in v["engine"]),
         "kind_free_text": "regular expressions of the live grammar translated from CPython's sre IR to z3 (language and ordered-choice match length)"},
    ],
    "checks": [],
    "not_applicable": [],
    "notes": "Technique family: solver-based checking of the real code (z3 / CrossHair). See DESIGN.md. Exit codes of ./check: 0 ok, "
             "1 VIOLATION, 2 harness error.",
}
for p in props:
    pid = p["id"]
    if pid in CHECKS:
        c = CHECKS[pid]
        man["checks"].append({
            "property_id": pid,
            "quick_cmd": "./check %s --tier quick" % pid,
            "thorough_cmd": "./check %s --tier thorough" % pid,
            "evidence_file": "evidence/%s.json" % pid,
            "replay_cmd_template": "./check %s --replay {path}" % pid,
            "engine": c["engine"],
            "level_claimed": {"category": c["category"], "text": c["text"], "design_ref": c["ref"]},
            "level_note": c["note"],
            "technique": c["technique"],
        })
    else:
        man["not_applicable"].append({"property_id": pid, "reason": NA.get(
            pid, "check under construction in this session (DESIGN.md section 5 describes the plan); not registered yet")})
json.dump(man, open(os.path.join(HERE, "MANIFEST.json"), "w"), indent=1)
print("MANIFEST.json: %d checks, %d not applicable" % (len(man["checks"]), len(man["not_applicable"])))
