"""CrossHair harnesses for C12: reaction text is read exactly as written; printing and parsing are inverse.

Species keys come from a pool of tricky space-free keys (brackets, charges, phases, primes, radicals, greek prefixes);
coefficients are symbolic integers rendered with str(n); at most two symbolic integers per harness.
No pyparsing inside traced code: Reaction / Equilibrium never parse formulas (globals_=False, checks that need no Substance).
"""
from chempy import Reaction, Equilibrium
from chempy.util.parsing import to_reaction

POOL = ("(NH4)2SO4", "[Fe(CN)6]-3", "e-", "H+", "O2*", "A'", ".OH", "alpha-X", "(CH)6(l)", "{Li@C60}+", "H2O", "Na+", "Fe(OH)2(s)", "CH3*")


def _rxn(s, keys=None, cls=Reaction):
    return cls.from_string(s, keys, globals_=False)


def _plain(d):
    return {k: v for k, v in d.items()}


PAIRS = (("(NH4)2SO4", "[Fe(CN)6]-3"), ("e-", "H+"), ("Fe(OH)2(s)", "A'"), (".OH", "alpha-X"), ("(CH)6(l)", "{Li@C60}+"), ("H2O", "Na+"),
         ("O2*", "CH3*"))


def _h_two_coeffs(n: int, m: int) -> bool:
    """
    pre: 1 <= n <= 1000 and 1 <= m <= 1000
    post: _
    """
    return all([_two_coeffs(n, m, a, b) for a, b in PAIRS])


def _two_coeffs(n, m, a, b):
    r = _rxn(str(n) + " " + a + " + " + str(m) + " " + b + " -> X")
    return _plain(r.reac) == {a: n, b: m} and _plain(r.prod) == {"X": 1} and not r.inact_reac and not r.inact_prod


def _h_products_and_star(n: int, m: int) -> bool:
    """
    pre: 1 <= n <= 1000 and 1 <= m <= 1000
    post: _
    """
    return all([_products_and_star(n, m, a) for a in POOL[::2]])


def _products_and_star(n, m, a):
    r = _rxn("Y -> " + str(n) + " * " + a + " + " + str(m) + " Z")
    return _plain(r.reac) == {"Y": 1} and _plain(r.prod) == {a: n, "Z": m}


def _h_repeated_species(n: int, m: int) -> bool:
    """
    pre: 1 <= n <= 1000 and 1 <= m <= 1000
    post: _
    """
    return all([_repeated_species(n, m, a) for a in POOL[1::3]])


def _repeated_species(n, m, a):
    r1 = _rxn(str(n) + " " + a + " + " + str(m) + " " + a + " -> P")
    r2 = _rxn(a + " + " + str(n) + " " + a + " -> P")
    r3 = _rxn(str(n) + " " + a + " + " + a + " -> " + str(m) + " P + P")
    return (_plain(r1.reac) == {a: n + m} and _plain(r2.reac) == {a: n + 1} and _plain(r3.reac) == {a: n + 1}
            and _plain(r3.prod) == {"P": m + 1})


def _h_repeated_nonadjacent(n: int, m: int) -> bool:
    """
    pre: 1 <= n <= 1000 and 1 <= m <= 1000
    post: _
    """
    return all([_repeated_nonadjacent(n, m, a, b) for a, b in PAIRS[:4]])


def _repeated_nonadjacent(n, m, a, b):
    # three and four terms per side, the repeated species separated by another one
    r1 = _rxn(str(n) + " " + a + " + " + str(m) + " " + b + " + " + a + " -> P + Q + 2 P")
    r2 = _rxn(a + " + " + b + " + " + str(n) + " " + a + " + " + str(m) + " " + b + " -> Q + P + Q + P")
    return (_plain(r1.reac) == {a: n + 1, b: m} and _plain(r1.prod) == {"P": 3, "Q": 1}
            and _plain(r2.reac) == {a: n + 1, b: m + 1} and _plain(r2.prod) == {"P": 2, "Q": 2})


def _h_inactive_groups(n: int, m: int) -> bool:
    """
    pre: 1 <= n <= 1000 and 1 <= m <= 1000
    post: _
    """
    return all([_inactive_groups(n, m, a, b) for a, b in PAIRS] + [_inactive_groups(n, m, b, a) for a, b in PAIRS[:3]])


def _inactive_groups(n, m, a, b):
    r = _rxn(str(n) + " " + a + " + (" + str(m) + " " + b + ") -> Q + (" + b + ")")
    return (_plain(r.reac) == {a: n} and _plain(r.inact_reac) == {b: m} and _plain(r.prod) == {"Q": 1}
            and _plain(r.inact_prod) == {b: 1})


def _h_equilibrium_arrow(n: int) -> bool:
    """
    pre: 1 <= n <= 1000
    post: _
    """
    return all([_equilibrium_arrow(n, a) for a in POOL[::3]])


def _equilibrium_arrow(n, a):
    e = _rxn(str(n) + " " + a + " = B + " + str(n) + " C", cls=Equilibrium)
    bad = False
    try:
        _rxn(str(n) + " " + a + " -> B", cls=Equilibrium)
        bad = True
    except ValueError:
        pass
    return not bad and isinstance(e, Equilibrium) and _plain(e.reac) == {a: n} and _plain(e.prod) == {"B": 1, "C": n}


def _h_allowed_keys(n: int) -> bool:
    """
    pre: 1 <= n <= 1000
    post: _
    """
    return all([_allowed_keys(n, a, b) for a, b in PAIRS[:4]])


def _allowed_keys(n, a, b):
    ok = _rxn(str(n) + " " + a + " -> B", [a, "B"])
    good = _plain(ok.reac) == {a: n}
    # the allowed keys as ONE whitespace-separated string (blanks, a line break, a tab, trailing newline): same keys, same answers
    ks = "Q1 " + a + "\nB\tQ2 Q3\n"
    ok2 = _rxn(str(n) + " " + a + " -> B", ks)
    good = good and _plain(ok2.reac) == {a: n} and _plain(ok2.prod) == {"B": 1}
    try:
        _rxn(str(n) + " " + b + " -> B", ks)
        return False
    except ValueError:
        pass
    for s in (str(n) + " " + b + " -> B", a + " -> " + str(n) + " " + b, a + " + (" + str(n) + " " + b + ") -> B"):
        try:
            _rxn(s, [a, "B"])
            return False
        except ValueError:
            pass
    # degenerate allowed-key collections: given but EMPTY means no key is allowed (only None means "no restriction")
    for empty in ([], (), {}):
        try:
            _rxn(str(n) + " " + a + " -> B", empty)
            return False
        except ValueError:
            pass
    return good


def _h_param_and_kwargs(n: int) -> bool:
    """
    pre: 1 <= n <= 1000
    post: _
    """
    # quoted parameter names are kept verbatim (no eval); evaluated parts are exercised with concrete text
    r2 = to_reaction(str(n) + " A -> B; 'k" + str(n) + "'", None, "->", Reaction, {})
    r3 = to_reaction("A -> " + str(n) + " B; 3; name='r7'", None, "->", Reaction, {})
    r4 = to_reaction(str(n) + " A -> B", None, "->", Reaction, False)
    # a parameter that happens to be zero is a parameter: it is printed and read back
    # decimal / exponent coefficients (concrete text) are read as floats; integers stay integers
    d = Reaction.from_string("0.5 A + 1.5e0 B + 2 C -> 0.25 * D", None, globals_=False, checks=())
    if _plain(d.reac) != {"A": 0.5, "B": 1.5, "C": 2} or _plain(d.prod) != {"D": 0.25} or type(d.reac["C"]) is not int:
        return False
    z = Reaction({"A": n}, {"B": 1}, 0, checks=())
    zs = str(z)
    zb = Reaction.from_string(zs, None, globals_={})
    return (r2.param.args[0].unique_keys == ("k" + str(n),) and _plain(r2.reac) == {"A": n} and r3.param == 3 and r3.name == "r7"
            and _plain(r3.prod) == {"B": n} and r4.param is None and zs.endswith("; 0") and zb == z and zb.param == 0)


def _h_print_parse_roundtrip(n: int, m: int) -> bool:
    """
    pre: 1 <= n <= 1000 and 1 <= m <= 1000
    post: _
    """
    return all([_print_parse_roundtrip(n, m, a, b) for a, b in PAIRS])


def _print_parse_roundtrip(n, m, a, b):
    r = Reaction({a: n, b: 1}, {"P": m}, checks=())
    e = Equilibrium({a: n}, {b: m, "P": 1}, checks=())
    s, se = str(r), str(e)
    return (_rxn(s) == r and _rxn(se, cls=Equilibrium) == e and r.copy() == r and e.copy() == e
            and s == " + ".join([((str(n) + " ") if (k == a and n != 1) else "") + k for k in sorted([a, b])]) + " -> "
            + (str(m) + " " if m != 1 else "") + "P")


import os

MAXLEN = 3 if os.environ.get("VERIF_TIER") == "thorough" else 2


def _inactive(s):
    if not (s.startswith("(") and s.endswith(")")):
        return False
    depth = 0
    for idx, c in enumerate(s):
        if c == "(":
            depth += 1
        elif c == ")":
            depth -= 1
            if depth == 0:
                return idx == len(s) - 1
    return False


def _h_symbolic_key(s: str) -> bool:
    """
    pre: 1 <= len(s) <= MAXLEN
    pre: all(c in "A(2)-[" for c in s)
    pre: "->" not in s
    post: _
    """
    r = _rxn(s + " -> B")
    if _inactive(s):
        inner = s[1:-1]
        if inner == "":
            return True  # '()' - no species named
        return _plain(r.inact_reac) == {inner: 1} and not r.reac
    return _plain(r.reac) == {s: 1} and not r.inact_reac and _plain(r.prod) == {"B": 1}


from chempy import ReactionSystem, Substance  # noqa


def _h_system_roundtrip(n: int, m: int) -> bool:
    """
    pre: 1 <= n <= 1000 and 1 <= m <= 1000
    post: _
    """
    keys = ["(NH4)2SO4", "H+", "X", "Y"]
    rs = ReactionSystem([Reaction({"(NH4)2SO4": n, "H+": 1}, {"X": m}, checks=()), Reaction({"X": 1}, {"Y": n}, checks=())], keys,
                        substance_factory=Substance)
    text = rs.string()
    back = ReactionSystem.from_string(text, keys, substance_factory=Substance, rxn_parse_kwargs=dict(globals_=False))
    lines = "# a comment\n\n" + text + "   \n# trailing comment\n"
    back2 = ReactionSystem.from_string(lines, keys, substance_factory=Substance, rxn_parse_kwargs=dict(globals_=False))
    return (back.rxns == rs.rxns and back2.rxns == rs.rxns and list(back.substances) == keys
            and text == ((str(n) + " ") if n != 1 else "") + "(NH4)2SO4 + H+ -> " + ((str(m) + " ") if m != 1 else "") + "X\nX -> "
            + ((str(n) + " ") if n != 1 else "") + "Y\n")


LONG_R = ["Aaa%d" % i for i in range(12)]
LONG_P = ["Bbb%d" % i for i in range(12)]


def _h_long_roundtrip(n: int) -> bool:
    """
    pre: 1 <= n <= 1000
    post: _
    """
    # LONG lines: 6+6 and 12+12 terms (printed text of 100-250 characters) and a key of 48 characters survive print -> parse
    ok = True
    for k in (6, 12):
        reac = dict((key, n if i == 1 else 1 + i % 3) for i, key in enumerate(LONG_R[:k]))
        prod = dict((key, n if i == 2 else 1 + i % 2) for i, key in enumerate(LONG_P[:k]))
        r = Reaction(reac, prod, checks=())
        back = Reaction.from_string(str(r), None, globals_=False, checks=())
        ok = ok and _plain(back.reac) == reac and _plain(back.prod) == prod
        keys = LONG_R[:k] + LONG_P[:k]
        rs = ReactionSystem([r, Reaction({keys[0]: 1}, {keys[-1]: n}, checks=())], keys, substance_factory=Substance)
        text = rs.string()
        back2 = ReactionSystem.from_string(text, keys, substance_factory=Substance, rxn_parse_kwargs=dict(globals_=False, checks=()))
        ok = ok and back2.rxns == rs.rxns and len(text.strip().split(chr(10))) == 2
    lk = "A" * 48
    r3 = Reaction({lk: n}, {"B" * 48: 1}, checks=())
    ok = ok and Reaction.from_string(str(r3), None, globals_=False, checks=()) == r3
    return ok


from chempy.equilibria import EqSystem  # noqa


def _h_eqsystem_roundtrip(n: int, m: int) -> bool:
    """
    pre: 1 <= n <= 1000 and 1 <= m <= 1000
    post: _
    """
    # the same text interface with the '=' arrow: every non-comment line is one equilibrium (none of them is anything else)
    keys = ["(NH4)2SO4", "H+", "X", "Y"]
    es = EqSystem([Equilibrium({"(NH4)2SO4": n, "H+": 1}, {"X": m}, checks=()), Equilibrium({"X": 1}, {"Y": n}, checks=())], keys,
                  substance_factory=Substance)
    text = es.string()
    back = EqSystem.from_string(text, keys, substance_factory=Substance, rxn_parse_kwargs=dict(globals_=False))
    lines = "# a comment\n\n" + text + "   \n# trailing comment\n"
    back2 = EqSystem.from_string(lines, keys, substance_factory=Substance, rxn_parse_kwargs=dict(globals_=False))
    return (back.rxns == es.rxns and back2.rxns == es.rxns and len(back.rxns) == 2 and list(back.substances) == keys
            and all(isinstance(r, Equilibrium) for r in back.rxns)
            and text == ((str(n) + " ") if n != 1 else "") + "(NH4)2SO4 + H+ = " + ((str(m) + " ") if m != 1 else "") + "X\nX = "
            + ((str(n) + " ") if n != 1 else "") + "Y\n")


def _h_float_coefficients(n: int) -> bool:
    """
    pre: 1 <= n <= 24
    post: _
    """
    # non-integer coefficients are printed so that they read back as exactly the same numbers (only parameters may be rounded)
    return all([_float_coefficients(n, d, a) for d in (7, 8, 3) for a in ("H2O", "[Fe(CN)6]-3")])


import numpy as _np  # noqa


def _float_coefficients(n, d, a):
    k = [j for j in range(1, 25) if n == j][0]  # concrete copy of n: one path per value, plain python floats below (no float modelling)
    if d == 8:
        # single-precision numpy scalars (exact for k/8) print as the numbers they are
        x32 = _np.float32(k / 8)
        e32 = Equilibrium({a: x32, "B": 1}, {"P": 1}, checks=())
        b32 = Equilibrium.from_string(str(e32), None, globals_=False, checks=())
        if _plain(b32.reac) != {a: k / 8, "B": 1}:
            return False
    x = k / d
    r = Reaction({a: x, "B": 1}, {"P": 2 * x}, checks=())
    back = Reaction.from_string(str(r), None, globals_=False, checks=())
    return _plain(back.reac) == {a: x, "B": 1} and _plain(back.prod) == {"P": 2 * x} and back == r


def _h_big_int_param(n: int) -> bool:
    """
    pre: 1 <= n <= 30
    post: _
    """
    # an integer parameter is read exactly as written, also beyond 2**53 (it never passes through a float)
    k = [j for j in range(1, 31) if n == j][0]
    big = 2 ** 60 + k
    rb = to_reaction("A -> B; " + str(big), None, "->", Reaction, {})
    r2 = Reaction({"A": 1}, {"B": 1}, big, checks=())
    return rb.param == big and type(rb.param) is int and Reaction.from_string(str(r2), None, globals_={}) == r2
