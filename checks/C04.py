"""C04 - the generated ODE system is exactly the kinetic model of the reaction system (Engine S: translation validation)."""
import itertools
import random
import time
import types
from collections import OrderedDict
from fractions import Fraction

import z3

from vlib import env
from vlib.s2z import Conv
from vlib.ufnorm import UFNorm

META = {
    "level": "translation_validation",
    "explanation": "translation validation per generated reaction system and build configuration: the real get_odesys / _create_odesys "
                   "(through the real pyodesys SymbolicSys) are run, and z3 proves every generated right-hand side expression equal, as a "
                   "real identity in concentrations and free parameters, to sum_r N[r,i]*rate_r built by an independent oracle from the "
                   "reaction dictionaries; names/param_names/order are compared; bound-vs-free parameter builds are proved equal after "
                   "substitution",
    "bounds": {"quick": "all single reactions over 2 keys with coefficients 0..2 + 40 seeded systems (<= 3 reactions, <= 4 keys, coefficients "
                        "<= 3, inactive parts) x 9 configurations",
               "thorough": "+ 400 seeded systems (<= 5 reactions, <= 6 keys)"},
    "assumptions": [
        "identity over the reals; exp uninterpreted (equal arguments => equal values)",
        "pyodesys' numeric callbacks (f_cb, rate_exprs_cb lambdification) are outside; only the symbolic expressions are validated",
        "systems in which a substance occurs in no reaction are rejected by the builders and are outside the quantifier",
    ],
    "outside": ["pyodesys numeric callbacks", "unit-registry builds (C10)"],
    "trusted_base": ["z3 5.1", "vlib/s2z.py", "sympy expression construction inside chempy/pyodesys is code under test"],
}

KEYS = ["A", "B", "C", "D", "E", "F"]
PRIMES = [2, 3, 5, 7, 11, 13, 17]

CONFIGS = ["numeric", "numeric_cstr", "named", "named_cstr", "arrhenius", "arrhenius_unique", "arrhenius_param", "ramped_temp",
           "create_named", "create_arrhenius", "create_named_cstr", "create_named_symbols", "reassign", "subst_vs_constants",
           "shared_expr", "unique_zero", "unique_zero_incl", "create_param_expr", "registry_named", "eyring", "named_list_cstr"]

# boundary structures: a reactant listed with coefficient 0, a zero-order source term (empty reactant side), a species only on the product side
BOUNDARY = [
    [({"A": 1, "B": 0}, {"C": 1}, {}, {}), ({"B": 1, "C": 1}, {"A": 1}, {}, {})],
    [({}, {"A": 1}, {}, {}), ({"A": 1}, {"B": 1}, {}, {}), ({"A": 1, "B": 1}, {"C": 2}, {}, {})],
    [({"A": 2, "B": 0, "C": 0}, {"B": 1, "C": 1}, {}, {})],
    # non-integral (python float, exactly representable) product coefficients
    [({"A": 2}, {"B": 0.5, "C": 1.5}, {}, {}), ({"B": 1}, {"A": 1}, {}, {})],
]
BOUNDARY_CONFIGS = ["named", "arrhenius", "arrhenius_unique", "create_named", "eyring", "unique_zero_incl", "named_list_cstr"]


def gen_systems(tier, seed):
    rnd = random.Random(seed)
    out = []
    # exhaustive: single reactions over A,B, coefficients 0..2 on each side (at least one active reactant or product, some net effect)
    for ra, rb, pa, pb in itertools.product(range(3), repeat=4):
        if (ra, rb) == (pa, pb) or (ra + rb + pa + pb) == 0:
            continue
        r = {k: v for k, v in (("A", ra), ("B", rb)) if v}
        p = {k: v for k, v in (("A", pa), ("B", pb)) if v}
        if set(r) | set(p) != {"A", "B"} or not r:
            continue  # zero-order steps with a plain number are not accepted by the builders (pyodesys gets a bare int)
        out.append([(r, p, {}, {})])
    n = 40 if tier == "quick" else 400
    maxr, maxk = (3, 4) if tier == "quick" else (5, 6)
    while len(out) < (len(out) // 1) and False:
        pass
    seeded = []
    while len(seeded) < n:
        nr = rnd.randint(1, maxr)
        nk = rnd.randint(2, maxk)
        keys = KEYS[:nk]
        rxs = []
        for _ in range(nr):
            def side(maxn):
                d = {}
                for k in rnd.sample(keys, rnd.randint(0, min(maxn, nk))):
                    d[k] = rnd.choice([1, 1, 2, 3])
                return d
            r, p = side(2), side(2)
            if not r:
                continue
            ir = side(1) if rnd.random() < 0.25 else {}
            ip = side(1) if rnd.random() < 0.2 else {}
            net_any = any((p.get(k, 0) - r.get(k, 0) + ip.get(k, 0) - ir.get(k, 0)) != 0 for k in keys)
            if not net_any:
                continue
            rxs.append((r, p, ir, ip))
        used = set()
        for rx in rxs:
            for d in rx:
                used |= set(d)
        if rxs and used == set(keys) and rxs not in seeded:
            seeded.append(rxs)
    return out, seeded


def oracle_rates(rxs, kexprs, conc):
    """per-reaction rate = k * prod(active reactant conc ** nu)"""
    rates = []
    for rx, k in zip(rxs, kexprs):
        r = k
        for key in sorted(rx[0]):
            r = r * conc[key] ** rx[0][key]
        rates.append(r)
    return rates


def oracle_rhs(rxs, rates, keys, conc, cstr=None):
    out = {}
    for key in keys:
        tot = 0
        for rx, rt in zip(rxs, rates):
            net = rx[1].get(key, 0) - rx[0].get(key, 0) + rx[3].get(key, 0) - rx[2].get(key, 0)
            tot = tot + net * rt
        if cstr:
            fr, fc = cstr
            tot = tot + fr * (fc[key] - conc[key])
        out[key] = tot
    return out


def build_case(rxs, config):
    """returns (odesys, extra/None, keys, oracle_fn(symbols by name) -> dict key->sympy expr, expected param name set, notes)"""
    import sympy as sp
    from chempy import Reaction, ReactionSystem
    from chempy.kinetics.ode import get_odesys, _create_odesys
    from chempy.kinetics.rates import MassAction, Arrhenius, RampedTemp, EyringHS
    from chempy.kinetics.arrhenius import ArrheniusParam

    keys = []
    for rx in rxs:
        for d in rx:
            for k in d:
                if k not in keys:
                    keys.append(k)
    keys = sorted(keys)
    nr = len(rxs)
    A = [Fraction(PRIMES[i % 7], 1) for i in range(nr)]
    E = [Fraction(PRIMES[(i + 3) % 7] * 100, 1) for i in range(nr)]

    def mk(params):
        rxns = [Reaction(dict(rx[0]), dict(rx[1]), p, inact_reac=dict(rx[2]), inact_prod=dict(rx[3]), checks=()) for rx, p in zip(rxs, params)]
        return ReactionSystem(rxns, keys, checks=())

    S = sp.Symbol
    kw = {}
    builder = get_odesys
    expected_params = None
    binder = None
    if config in ("numeric", "numeric_cstr"):
        params = [int(a) for a in A]
        kfun = lambda P: [sp.Integer(int(a)) for a in A]  # noqa
        expected_params = set()
    elif config in ("named", "named_cstr", "create_named", "create_named_cstr", "create_named_symbols", "named_list_cstr"):
        params = ["k%d" % i for i in range(nr)]
        kfun = lambda P: [P["k%d" % i] for i in range(nr)]  # noqa
        expected_params = set(params)
        kw["include_params"] = False
    elif config in ("arrhenius", "create_arrhenius"):
        params = [MassAction(Arrhenius([int(a), int(e)])) for a, e in zip(A, E)]
        kfun = lambda P: [int(a) * sp.exp(-sp.Integer(int(e)) / P["temperature"]) for a, e in zip(A, E)]  # noqa
        expected_params = {"temperature"}
    elif config == "arrhenius_unique":
        params = [MassAction(Arrhenius([int(a), int(e)], unique_keys=("A%d" % i, "E%d" % i))) for i, (a, e) in enumerate(zip(A, E))]
        kfun = lambda P: [P["A%d" % i] * sp.exp(-P["E%d" % i] / P["temperature"]) for i in range(nr)]  # noqa
        expected_params = {"temperature"} | {"A%d" % i for i in range(nr)} | {"E%d" % i for i in range(nr)}
        kw["include_params"] = False
        binder = {("A%d" % i): int(a) for i, a in enumerate(A)}
        binder.update({("E%d" % i): int(e) for i, e in enumerate(E)})
    elif config == "shared_expr":
        # ONE rate-expression object shared by all reactions (same Arrhenius parameters, different reactants)
        shared = MassAction(Arrhenius([int(A[0]), int(E[0])]))
        params = [shared] * nr
        kfun = lambda P: [int(A[0]) * sp.exp(-sp.Integer(int(E[0])) / P["temperature"]) for _ in range(nr)]  # noqa
        expected_params = {"temperature"}
    elif config in ("unique_zero", "unique_zero_incl"):
        # unique keys with inlined defaults, some of them bound to ZERO at build time (a switched-off reaction / zero activation energy)
        params = [MassAction(Arrhenius([int(a), int(e)], unique_keys=("A%d" % i, "E%d" % i))) for i, (a, e) in enumerate(zip(A, E))]
        zero = {"A0": 0}
        if nr > 1:
            zero["E1"] = 0
        kw["substitutions"] = dict(zero)
        kw["include_params"] = config.endswith("_incl")
        if kw["include_params"]:
            kfun = lambda P: [(0 if i == 0 else int(A[i])) * sp.exp(-sp.Integer(0 if i == 1 else int(E[i])) / P["temperature"]) for i in range(nr)]  # noqa
            expected_params = {"temperature"}
        else:
            kfun = lambda P: [(0 if i == 0 else P["A%d" % i]) * sp.exp(-(0 if i == 1 else P["E%d" % i]) / P["temperature"]) for i in range(nr)]  # noqa
            expected_params = ({"temperature"} | {"A%d" % i for i in range(nr)} | {"E%d" % i for i in range(nr)}) - set(zero)
    elif config == "create_param_expr":
        # the alternative builder with `parameter_expressions` (overrides): for a unique key of an Expr parameter (which also has an
        # inlined default and a symbol of its own) and for a plain named parameter; every other parameter stays a free symbol
        # (the overridden plain name comes first: on the pinned tree only a NAMED parameter's override contributes its own parameter
        # keys - 'temperature' - to the symbol table; overriding a unique key alone raises KeyError, which is not part of this claim)
        params = ["k0"] + ([MassAction([int(A[1])], unique_keys=("k1",))] if nr > 1 else []) + ["k%d" % i for i in range(2, nr)]
        over = {"k0": Arrhenius([int(A[0]) + 1, int(E[0])])}
        if nr > 1:
            over["k1"] = Arrhenius([int(A[1]) + 1, int(E[1])])
        kfun = lambda P: [(int(A[i]) + 1) * sp.exp(-sp.Integer(int(E[i])) / P["temperature"]) if ("k%d" % i) in over else P["k%d" % i] for i in range(nr)]  # noqa
        expected_params = {"temperature"} | ({"k1"} if nr > 1 else set()) | {"k%d" % i for i in range(2, nr)}
    elif config == "registry_named":
        # built WITH a unit registry (idealised: base units are free positive reals, as in C10): unique-key expressions and plain named
        # parameters mixed; all constants stay free symbols, so no number needs a unit conversion
        from checks.C10 import sym_registry

        params = [MassAction([int(A[0])], unique_keys=("k0",))] + ["k%d" % i for i in range(1, nr)]
        kfun = lambda P: [P["k%d" % i] for i in range(nr)]  # noqa
        expected_params = {"k%d" % i for i in range(nr)}
        kw["include_params"] = False
        kw["unit_registry"] = sym_registry()[0]
    elif config == "eyring":
        # Eyring rate with a standard state that is not numerically one: k = c0*T*exp(-c1/T) * conc0**(1 - order), also for order 0
        from chempy.kinetics.rates import Eyring
        params = [MassAction(Eyring([int(a), int(e), 2])) for a, e in zip(A, E)]   # a power of two: 2**(1-order) is exact in floats
        orders = [sum(rx[0].values()) for rx in rxs]
        kfun = lambda P: [int(a) * P["temperature"] * sp.exp(-sp.Integer(int(e)) / P["temperature"]) * sp.Integer(2) ** (1 - o)  # noqa
                          for a, e, o in zip(A, E, orders)]
        expected_params = {"temperature"}
    elif config == "arrhenius_param":
        params = [ArrheniusParam(int(a), int(e)) for a, e in zip(A, E)]
        from chempy.kinetics.arrhenius import _get_R
        R = sp.Rational(_get_R())
        kfun = lambda P: [int(a) * sp.exp(-(int(e) / _get_R()) / P["temperature"]) for a, e in zip(A, E)]  # noqa  (same float division as the code)
        expected_params = {"temperature"}
    elif config == "ramped_temp":
        params = [MassAction(Arrhenius([int(a), int(e)])) for a, e in zip(A, E)]
        kw["substitutions"] = {"temperature": RampedTemp([300, 2])}
        kfun = lambda P: [int(a) * sp.exp(-sp.Integer(int(e)) / (300 + 2 * P["time"])) for a, e in zip(A, E)]  # noqa
        expected_params = set()
    elif config == "reassign":
        params = [int(a) for a in A]
        kfun = lambda P: [sp.Integer(int(a) + 10) for a in A]  # noqa
        expected_params = set()
    elif config == "subst_vs_constants":
        params = [MassAction(EyringHS([int(a), int(e), 1])) for a, e in zip(A, E)]
        consts = types.SimpleNamespace(molar_gas_constant=8, Boltzmann_constant=3, Planck_constant=4)
        kw["substitutions"] = {"molar_gas_constant": 9}
        kw["constants"] = consts
        orders = [sum(rx[0].values()) for rx in rxs]
        kfun = lambda P: [sp.Rational(3, 4) * P["temperature"] * sp.exp(-(int(a) - P["temperature"] * int(e)) / (9 * P["temperature"]))  # noqa
                          for a, e in zip(A, E)]
        expected_params = {"temperature"}
    else:
        raise ValueError(config)
    cstr = config.endswith("_cstr")
    rsys = mk(params)
    if config == "reassign":
        get_odesys(rsys)  # first build; then the rate constants are reassigned (parameter scan) and the system is built again
        for rxn, a in zip(rsys.rxns, A):
            rxn.param = int(a) + 10
    if config.startswith("create_"):
        rkw = {}
        if config == "create_arrhenius":
            rkw["rates_kw"] = dict(backend=sp)
        if cstr:
            rkw["rates_kw"] = dict(cstr_fr_fc=("feedratio", OrderedDict([(k, "fc_" + k) for k in keys])))
        if config == "create_param_expr":
            rkw["parameter_expressions"] = over
            rkw["rates_kw"] = dict(backend=sp)
        if config == "create_named_symbols":
            # the caller supplies the dependent-variable symbols as a plain mapping, not in substance order
            rkw["substance_symbols"] = {k: sp.Symbol("c_" + k) for k in reversed(keys)}
        odesys, extra = _create_odesys(rsys, **rkw)
    else:
        if cstr:
            # True (default key names) or the caller's own pair of keys - here given as a LIST, any two-element sequence is unpacked
            kw["cstr"] = ["feedratio", OrderedDict([(k, "fc_" + k) for k in keys])] if config == "named_list_cstr" else True
        odesys, extra = get_odesys(rsys, **kw)
    if cstr:
        expected_params = set(expected_params) | {"feedratio"} | {"fc_" + k for k in keys}
    return rsys, odesys, extra, keys, kfun, expected_params, cstr, binder


def analyse(rxs, config):
    import sympy as sp

    out = dict(config=config, rxs=rxs, queries=0)
    try:
        rsys, odesys, extra, keys, kfun, expected_params, cstr, binder = build_case(rxs, config)
    except Exception as e:
        out.update(status="violation", kind="build", detail="builder raised %r" % (e,))
        return out
    if list(odesys.names) != list(rsys.substances) or list(odesys.names) != keys:
        out.update(status="violation", kind="names", detail="names %s vs substances %s" % (odesys.names, keys))
        return out
    pn = list(odesys.param_names)
    if set(pn) != set(expected_params) or len(pn) != len(set(pn)):
        out.update(status="violation", kind="param_names", detail="param_names %s, expected %s" % (pn, sorted(expected_params)))
        return out
    if len(odesys.exprs) != len(keys):
        out.update(status="violation", kind="count", detail="%d equations for %d substances" % (len(odesys.exprs), len(keys)))
        return out
    conc = dict(zip(odesys.names, odesys.dep))
    if config == "create_named_symbols" and [str(d) for d in odesys.dep] != ["c_" + k for k in keys]:
        out.update(status="violation", kind="dep-symbols", detail="dependent variables %s do not follow the substance order %s" % (odesys.dep, keys))
        return out
    P = dict(zip(odesys.param_names, odesys.params))
    P["time"] = odesys.indep
    rates = oracle_rates(rxs, kfun(P), conc)
    rhs = oracle_rhs(rxs, rates, keys, conc, (P["feedratio"], {k: P["fc_" + k] for k in keys}) if cstr else None)
    conv = Conv()
    pos = [conv(s) > 0 for s in list(odesys.dep) + [v for k, v in P.items()]]
    for i, key in enumerate(keys):
        try:
            a, b = conv(odesys.exprs[i]), conv(rhs[key])
        except NotImplementedError as e:
            out.update(status="inconclusive", detail="translation: %s" % e)
            return out
        norm = UFNorm(pos, timeout_ms=10000, relate=False)
        r, m = norm.prove(a == b, timeout_ms=30000)
        out["queries"] += 1 + norm.stats["arg_queries"]
        if r == "sat":
            out.update(status="violation", kind="rhs", detail="d[%s]/dt = %s differs from N^T r = %s" % (key, odesys.exprs[i], sp.simplify(rhs[key])))
            return out
        if r != "unsat":
            out.update(status="inconclusive", detail="rhs %s: %s" % (key, r))
            return out
    # numeric callbacks at one rational point (concrete validation of what pyodesys lambdified; not solver evidence):
    # per-reaction rates from extra['rate_exprs_cb'] and the right-hand side from odesys.f_cb must equal the oracle's numbers
    if extra is not None and "rate_exprs_cb" in extra and config not in ("ramped_temp",):
        try:
            yv = [0.5 + 0.25 * i for i in range(len(keys))]
            pv = [1.5 + 0.5 * i for i in range(len(odesys.params))]
            sub = dict(zip(odesys.dep, yv))
            sub.update(zip(odesys.params, pv))
            sub[odesys.indep] = 0.25
            exp_rates = [float(sp.N(sp.sympify(r_).subs(sub), 20)) for r_ in rates]
            got_rates = [float(x) for x in extra["rate_exprs_cb"](0.25, yv, pv)]
            exp_f = [float(sp.N(sp.sympify(rhs[k]).subs(sub), 20)) for k in keys]
            got_f = [float(x) for x in odesys.f_cb(0.25, yv, pv)]
            for a_, b_ in list(zip(got_rates, exp_rates)) + list(zip(got_f, exp_f)):
                if abs(a_ - b_) > 1e-9 * max(1.0, abs(b_)):
                    out.update(status="violation", kind="callbacks", detail="rate_exprs_cb/f_cb %s %s differ from the oracle %s %s" % (got_rates, got_f, exp_rates, exp_f))
                    return out
        except Exception as e:
            out.update(status="violation", kind="callbacks", detail="numeric callbacks raised %r" % (e,))
            return out
    # bound-vs-free parameters:
    if binder is not None:
        rs2, od2, ex2, _, kf2, _, _, _ = build_case(rxs, "arrhenius")
        sub = {P[k]: v for k, v in binder.items()}
        sub[P["temperature"]] = dict(zip(od2.param_names, od2.params))["temperature"]
        sub.update(dict(zip(odesys.dep, od2.dep)))
        for i, key in enumerate(keys):
            a, b = conv(odesys.exprs[i].subs(sub)), conv(od2.exprs[i])
            norm = UFNorm([], timeout_ms=10000, relate=False)
            r, m = norm.prove(a == b, timeout_ms=30000)
            out["queries"] += 1
            if r != "unsat":
                out.update(status="violation" if r == "sat" else "inconclusive", kind="binding",
                           detail="binding the free parameters does not give the inlined build for %s" % key)
                return out
    out["status"] = "discharged"
    return out


REPLAY = '''
sys.path.insert(0, "/verif")
from checks.C04 import replay
sys.exit(replay(%(rxs)r, %(config)r))
'''


def replay(rxs, config):
    """concrete replay: build through the public API and compare the generated expressions with N^T r at a rational point"""
    import sympy as sp

    try:
        rsys, odesys, extra, keys, kfun, expected_params, cstr, binder = build_case(rxs, config)
    except Exception as e:
        print("builder raised %r" % (e,))
        return 1
    bad = []
    if list(odesys.names) != keys:
        bad.append("names %s != %s" % (odesys.names, keys))
    if set(odesys.param_names) != set(expected_params):
        bad.append("param_names %s != %s" % (list(odesys.param_names), sorted(expected_params)))
    conc = dict(zip(odesys.names, odesys.dep))
    if config == "create_named_symbols" and [str(d) for d in odesys.dep] != ["c_" + k for k in keys]:
        bad.append("dependent variables %s do not follow the substance order %s" % (odesys.dep, keys))
    P = dict(zip(odesys.param_names, odesys.params))
    P["time"] = odesys.indep
    try:
        rates = oracle_rates(rxs, kfun(P), conc)
        rhs = oracle_rhs(rxs, rates, keys, conc, (P["feedratio"], {k: P["fc_" + k] for k in keys}) if cstr else None)
    except KeyError as e:
        print("missing parameter %s" % e)
        return 1
    pt = {}
    for i, s in enumerate(list(odesys.dep) + list(P.values())):
        pt[s] = sp.Rational(3 + 2 * i, 7 + i)
    if "temperature" in P:
        pt[P["temperature"]] = sp.Rational(2003, 2)  # keeps exp(-E/T) away from underflow
    for i, key in enumerate(keys):
        a = sp.N(odesys.exprs[i].subs(pt), 30)
        b = sp.N(sp.sympify(rhs[key]).subs(pt), 30)
        if abs(a - b) > sp.Float(10) ** -12 * max(abs(a), abs(b)):
            bad.append("d[%s]/dt: generated %s, N^T r gives %s" % (key, a, b))
    if extra is not None and "rate_exprs_cb" in extra and config != "ramped_temp":
        yv = [0.5 + 0.25 * i for i in range(len(keys))]
        pv = [1.5 + 0.5 * i for i in range(len(odesys.params))]
        sub = dict(zip(odesys.dep, yv)); sub.update(zip(odesys.params, pv)); sub[odesys.indep] = 0.25
        try:
            exp_rates = [float(sp.N(sp.sympify(r_).subs(sub), 20)) for r_ in rates]
            got_rates = [float(x) for x in extra["rate_exprs_cb"](0.25, yv, pv)]
            exp_f = [float(sp.N(sp.sympify(rhs[k]).subs(sub), 20)) for k in keys]
            got_f = [float(x) for x in odesys.f_cb(0.25, yv, pv)]
            for a_, b_ in list(zip(got_rates, exp_rates)) + list(zip(got_f, exp_f)):
                if abs(a_ - b_) > 1e-9 * max(1.0, abs(b_)):
                    bad.append("numeric callbacks: %s %s vs oracle %s %s" % (got_rates, got_f, exp_rates, exp_f)); break
        except Exception as e:
            bad.append("numeric callbacks raised %r" % (e,))
    for b in bad:
        print("MISMATCH", b)
    return 1 if bad else 0


def task_systems(systems, configs):
    from chempy.kinetics import ode
    from chempy import ReactionSystem

    res = dict(engine="S", functions=[env.describe(ode.get_odesys), env.describe(ode._create_odesys), env.describe(ReactionSystem.rates)],
               obligations=0, discharged=0, violations=[], inconclusive=[], queries=0, solver_s=0.0,
               bounds="%d systems x %d configurations" % (len(systems), len(configs)))
    t0 = time.time()
    for rxs in systems:
        for config in configs:
            res["obligations"] += 1
            o = analyse(rxs, config)
            res["queries"] += o.get("queries", 0)
            if o["status"] == "discharged":
                res["discharged"] += 1
            elif o["status"] == "inconclusive":
                res["inconclusive"].append("%s %s: %s" % (rxs, config, o["detail"]))
            else:
                res["violations"].append(dict(key="%s:%s" % (config, o["kind"]), desc="%s [%s]: %s" % (rxs, config, o["detail"][:400]),
                                              replay_src=REPLAY % dict(rxs=rxs, config=config)))
    res["solver_s"] = time.time() - t0
    res["twin"] = "n/a"
    res["sample"] = {"system (reac, prod, inact_reac, inact_prod)": systems[0], "configs": configs}
    res["status"] = "violation" if res["violations"] else ("inconclusive" if res["inconclusive"] else "discharged")
    return res


def task_twin():
    """the analysis must reject a wrong oracle (a reaction dropped) and a corrupted builder (transposed stoichiometry)"""
    global oracle_rhs
    rxs = [({"A": 2, "B": 1}, {"C": 1}, {}, {}), ({"C": 1}, {"A": 1, "B": 1}, {"B": 1}, {})]
    orig = oracle_rhs
    hits = 0
    try:
        def bad(rxs_, rates, keys, conc, cstr=None):
            return orig(rxs_[:1], rates[:1], keys, conc, cstr)
        oracle_rhs = bad
        hits += analyse(rxs, "named")["status"] == "violation"
    finally:
        oracle_rhs = orig
    from chempy import Reaction

    o_net = Reaction.net_stoich

    def bad_net(self, keys):
        return tuple(-x for x in o_net(self, keys))

    Reaction.net_stoich = bad_net
    try:
        hits += analyse(rxs, "numeric")["status"] == "violation"
    finally:
        Reaction.net_stoich = o_net
    return dict(engine="S", functions=[], obligations=2, discharged=hits, violations=[], twin="violated" if hits == 2 else "passed",
                status="discharged", bounds="wrong oracle and sign-flipped stoichiometry must be rejected",
                sample={"twin": "dropped reaction / negated net stoichiometry are detected"})


def _tasks_boundary():
    return [dict(id="C04.boundary", fn="task_systems", kwargs=dict(systems=BOUNDARY, configs=BOUNDARY_CONFIGS), timeout=1200)]


def tasks(tier, seed):
    exhaustive, seeded = gen_systems(tier, seed)
    ts = [dict(id="C04.twin", fn="task_twin", kwargs={}, timeout=300)]
    n = 15
    for i in range(n):
        ch = exhaustive[i::n]
        if ch:
            ts.append(dict(id="C04.single.%02d" % i, fn="task_systems",
                           kwargs=dict(systems=ch, configs=["numeric", "named", "arrhenius_unique", "create_named", "named_cstr"]), timeout=2400))
    for i in range(n):
        ch = seeded[i::n]
        if ch:
            ts.append(dict(id="C04.seeded.%02d" % i, fn="task_systems", kwargs=dict(systems=ch, configs=CONFIGS), timeout=2400))
    return ts + _tasks_boundary()
