"""C16 - rate-constant models evaluate to their defining formulas under every backend (Engine Z)."""
import itertools
import operator
import time
from fractions import Fraction

import z3

from vlib import env, ucase
from vlib.zrun import twin_verdict, explore_and_prove, uf_prover, eq_term, concretize, pyrepr
from vlib.zsym import Real, Int, Const, ZBackend, SymNum, lift, model_value

META = {
    "level": "other",
    "explanation": "bounded symbolic verification (Engine Z): Arrhenius/Eyring equations and parameter sets, their round trip from a "
                   "known rate constant, as_RateExpr inside Reaction.rate, the rate-expression classes (Arrhenius, Eyring, EyringHS, "
                   "Radiolytic, RampedTemp, SinTemp, GibbsEqConst, MassActionEq), temperature polynomials and piecewise definitions are "
                   "executed on z3 reals with exp/sin uninterpreted, in unitless mode, with free-positive-real unit symbols and with "
                   "symbolic constants objects; z3 proves them equal to their defining formulas for all arguments. Expression algebra: "
                   "every operator tree up to the stated depth built with the REAL overloads evaluates to the same Python arithmetic on "
                   "the operand values; a named override replaces exactly that argument",
    "bounds": {"quick": "all real arguments in the stated domains; operator trees of depth <= 2 over {Constant, Symbol, TPoly, 0, 1, 2, 3.0} "
                        "with + - * / ** and negation; polynomials with up to 18 coefficients; piecewise with 2, 3, 5 and 9 pieces and symbolic bounds",
               "thorough": "+ operator trees of depth 3 (seeded subset of the 3-level shapes); piecewise with up to 17 pieces"},
    "assumptions": [
        "backend independence is shown as: the value is one and the same term built from backend.exp/... for ANY backend object that "
        "provides those functions (uninterpreted), units independence as invariance under all positive unit scales (idealised stub)",
        "hard-coded constants R, kB/h are compared with CODATA within 2e-6 relative (concrete comparison)",
        "fitting routines (numpy/scipy least squares) are not applicable; real-`quantities` evaluation outside",
    ],
    "outside": ["fit_arrhenius_equation / fit_eyring_equation / least_squares", "real quantities objects", "float rounding"],
    "trusted_base": ["z3 5.1", "vlib/zsym.py", "vlib/ufnorm.py", "vlib/usyms.py"],
}

POS = (Fraction(1, 10 ** 6), None)
ANY = (None, None)
TR = (200, 2000)
RS = ("from chempy import Reaction, Equilibrium\nfrom chempy.kinetics.rates import *\nfrom chempy.kinetics.rates import mk_Radiolytic\n"
      "from chempy.kinetics.arrhenius import arrhenius_equation, ArrheniusParam, _get_R\n"
      "from chempy.kinetics.eyring import eyring_equation, EyringParam, _get_kB_over_h\n"
      "from chempy.kinetics._rates import *\nfrom chempy.util._expr import create_Piecewise, create_Poly, Constant, Symbol\n"
      "from chempy.thermodynamics.expressions import MassActionEq, GibbsEqConst\n"
      "rxn1 = Reaction({'A': 1}, {'B': 1})\nrxn2 = Reaction({'A': 1, 'B': 1}, {'C': 1})\nrxn3 = Reaction({'A': 2, 'B': 1}, {'C': 1})\n"
      "rxn0 = Reaction({}, {'A': 1})\n"
      "R0 = Const(8.314472)\nKH0 = Const(2.083664399411865234375e10)\n"
      # sequences on the same objects: (value, value after the caller updates its own variables, caller's mapping untouched by the call)
      "def _twice(expr, v1, upd, **kw):\n"
      "    d = dict(v1)\n"
      "    r1 = expr(d, **kw)\n"
      "    same = len(d) == len(v1) and all(d.get(k) is v for k, v in v1.items())\n"
      "    d.update(upd)\n"
      "    return r1, expr(d, **kw), (1 if same else 0)\n"
      # (rate, rate after the documented `rxn.param = new` reassignment) of one substance
      "def _reparam(rxn, p2, variables, key, **kw):\n"
      "    r1 = rxn.rate(variables, **kw)[key]\n"
      "    rxn.param = p2\n"
      "    return r1, rxn.rate(variables, **kw)[key], rxn.rate_expr()(variables, reaction=rxn, **kw)\n")

CASES = [
    dict(name="arrhenius_equation", targets=["chempy.kinetics.arrhenius.arrhenius_equation", "chempy.kinetics.arrhenius._get_R"], setup=RS,
         vars={"A": POS, "Ea": ANY, "T": TR}, plain="arrhenius_equation(A, Ea, T, backend=be)",
         units="arrhenius_equation(A/U.second, Ea*U.joule/U.mol, T*U.kelvin, units=U, backend=be)", unit="1/U.second",
         formula="A*be.exp(-Ea/(R0*T))"),
    dict(name="arrhenius_constants", targets=["chempy.kinetics.arrhenius.arrhenius_equation"], setup=RS,
         vars={"A": POS, "Ea": ANY, "T": TR}, plain="arrhenius_equation(A/U.s, Ea*U.J/U.mol, T*U.K, constants=Cs, units=U, backend=be)",
         formula="A/U.s*be.exp(-Ea*U.J/U.mol/(Cs.molar_gas_constant*T*U.K))"),
    dict(name="ArrheniusParam", targets=["chempy.kinetics.arrhenius.ArrheniusParam:__call__", "chempy.kinetics.arrhenius.ArrheniusParam:from_rateconst_at_T",
                                         "chempy.kinetics.arrhenius.ArrheniusParam:as_RateExpr"], setup=RS,
         vars={"A": POS, "Ea": ANY, "T": TR, "T1": TR, "k1": POS, "cA": POS, "cB": POS},
         plain="(ArrheniusParam(A, Ea)(T, backend=be), ArrheniusParam.from_rateconst_at_T(Ea, (T1, k1), backend=be)(T1, backend=be), "
               "ArrheniusParam.from_rateconst_at_T(Ea, (T1, k1), backend=be)(T, backend=be), "
               "Reaction({'A': 1, 'B': 1}, {'C': 2}, ArrheniusParam(A, Ea)).rate({'A': cA, 'B': cB, 'temperature': T}, backend=be)['C'], "
               "Reaction({'A': 2, 'B': 1}, {'C': 1}, ArrheniusParam(A, Ea)).rate({'A': cA, 'B': cB, 'temperature': T}, backend=be)['A'])",
         formula="(A*be.exp(-Ea/(R0*T)), k1, k1*be.exp(Ea/R0/T1)*be.exp(-Ea/(R0*T)), 2*A*be.exp(-Ea/R0/T)*cA*cB, -2*A*be.exp(-Ea/R0/T)*cA**2*cB)"),
    dict(name="ArrheniusParam_units", targets=["chempy.kinetics.arrhenius.ArrheniusParam:from_rateconst_at_T"], setup=RS,
         vars={"Ea": ANY, "T": TR, "T1": TR, "k1": POS},
         plain="ArrheniusParam.from_rateconst_at_T(Ea, (T1, k1), backend=be)(T, backend=be)",
         units="ArrheniusParam.from_rateconst_at_T(Ea*U.J/U.mol, (T1*U.K, k1/U.s), backend=be, units=U)(T*U.K, units=U, backend=be)",
         unit="1/U.s"),
    dict(name="eyring_equation", targets=["chempy.kinetics.eyring.eyring_equation", "chempy.kinetics.eyring._get_kB_over_h"], setup=RS,
         vars={"dH": ANY, "dS": ANY, "T": TR}, plain="eyring_equation(dH, dS, T, backend=be)",
         units="eyring_equation(dH*U.joule/U.mol, dS*U.joule/U.mol/U.kelvin, T*U.kelvin, units=U, backend=be)", unit="1/U.second",
         formula="KH0*T*be.exp(dS/R0)*be.exp(-dH/(R0*T))"),
    dict(name="eyring_constants", targets=["chempy.kinetics.eyring.eyring_equation"], setup=RS,
         vars={"dH": ANY, "dS": ANY, "T": TR},
         plain="eyring_equation(dH*U.J/U.mol, dS*U.J/U.mol/U.K, T*U.K, constants=Cs, units=U, backend=be)",
         formula="Cs.Boltzmann_constant/Cs.Planck_constant*T*U.K*be.exp(dS*U.J/U.mol/U.K/Cs.molar_gas_constant)*"
                 "be.exp(-dH*U.J/U.mol/(Cs.molar_gas_constant*T*U.K))"),
    dict(name="EyringParam", targets=["chempy.kinetics.eyring.EyringParam:__call__", "chempy.kinetics.eyring.EyringParam:as_RateExpr",
                                      "chempy.kinetics.eyring.EyringParam:kB_h_times_exp_dS_R", "chempy.kinetics.eyring.EyringParam:dH_over_R"],
         setup=RS, vars={"dH": ANY, "dS": ANY, "T": TR, "cA": POS, "conc0": POS},
         plain="(EyringParam(dH, dS)(T, backend=be), EyringParam(dH, dS).kB_h_times_exp_dS_R(backend=be), EyringParam(dH, dS).dH_over_R(), "
               "Eyring(list(EyringParam(dH, dS).as_RateExpr(backend=be).args[0].args)[:2] + [conc0])({'temperature': T}, backend=be, reaction=rxn2))",
         formula="(KH0*T*be.exp(dS/R0)*be.exp(-dH/(R0*T)), KH0*be.exp(dS/R0), dH/R0, KH0*be.exp(dS/R0)*T*be.exp(-dH/R0/T)/conc0)"),
    dict(name="rates_Arrhenius", targets=["chempy.kinetics.rates.Arrhenius:__call__", "chempy.util._expr.Expr:arg", "chempy.util._expr.Expr:all_args"],
         setup=RS, vars={"A": POS, "EaR": ANY, "T": TR, "Eo": ANY, "Ao": POS, "cA": POS},
         plain="(Arrhenius([A, EaR])({'temperature': T}, backend=be), "
               "Arrhenius([A, EaR], unique_keys=('A1', 'E1'))({'temperature': T, 'E1': Eo}, backend=be), "
               "Arrhenius([A, EaR], unique_keys=('A1', 'E1'))({'temperature': T, 'A1': Ao}, backend=be), "
               "Arrhenius(unique_keys=('A1', 'E1'))({'temperature': T, 'A1': Ao, 'E1': Eo}, backend=be), "
               "Arrhenius({'Ea_over_R': EaR, 'A': A})({'temperature': T}, backend=be), "
               "Reaction({'A': 3}, {'B': 1}, MassAction(Arrhenius([A, EaR]))).rate({'A': cA, 'temperature': T}, backend=be)['B'])",
         formula="(A*be.exp(-EaR/T), A*be.exp(-Eo/T), Ao*be.exp(-EaR/T), Ao*be.exp(-Eo/T), A*be.exp(-EaR/T), A*be.exp(-EaR/T)*cA**3)"),
    dict(name="rates_Eyring", targets=["chempy.kinetics.rates.Eyring:__call__", "chempy.kinetics.rates.EyringHS:__call__"], setup=RS,
         vars={"c0": POS, "c1": ANY, "conc0": POS, "T": TR, "dH": ANY, "dS": ANY, "R": POS, "kB": POS, "h": POS},
         plain="(Eyring([c0, c1, conc0])({'temperature': T}, backend=be, reaction=rxn1), Eyring([c0, c1, conc0])({'temperature': T}, backend=be, reaction=rxn2), "
               "Eyring([c0, c1, conc0])({'temperature': T}, backend=be, reaction=rxn0), "
               "EyringHS([dH, dS, conc0])({'temperature': T, 'molar_gas_constant': R, 'Boltzmann_constant': kB, 'Planck_constant': h}, backend=be, reaction=rxn0), "
               "Eyring([c0, c1, conc0])({'temperature': T}, backend=be, reaction=rxn3), "
               "EyringHS([dH, dS, conc0])({'temperature': T, 'molar_gas_constant': R, 'Boltzmann_constant': kB, 'Planck_constant': h}, backend=be, reaction=rxn2), "
               "EyringHS([dH, dS, conc0])({'temperature': T, 'molar_gas_constant': R, 'Boltzmann_constant': kB, 'Planck_constant': h}, backend=be, reaction=rxn3))",
         formula="(c0*T*be.exp(-c1/T), c0*T*be.exp(-c1/T)/conc0, c0*T*be.exp(-c1/T)*conc0, kB/h*T*be.exp(-(dH - T*dS)/(R*T))*conc0, "
                 "c0*T*be.exp(-c1/T)/conc0**2, kB/h*T*be.exp(-(dH - T*dS)/(R*T))/conc0, "
                 "kB/h*T*be.exp(-(dH - T*dS)/(R*T))/conc0**2)"),
    dict(name="Radiolytic_Temp", targets=["chempy.kinetics.rates.mk_Radiolytic", "chempy.kinetics.rates.RampedTemp:__call__",
                                          "chempy.kinetics.rates.SinTemp:__call__"], setup=RS,
         vars={"g": POS, "g2": POS, "rho": POS, "dr": POS, "dr2": POS, "t": POS, "T0": TR, "dTdt": ANY, "Tamp": ANY, "w": ANY, "ph": ANY, "cA": POS},
         plain="(Radiolytic([g])({'density': rho, 'doserate': dr}), mk_Radiolytic('alpha', 'beta')([g, g2])({'density': rho, 'doserate_alpha': dr, 'doserate_beta': dr2}), "
               "Reaction({'A': 1}, {'B': 2}, Radiolytic([g])).rate({'A': cA, 'density': rho, 'doserate': dr})['B'], "
               "RampedTemp([T0, dTdt])({'time': t}), SinTemp([T0, Tamp, w, ph])({'time': t}, backend=be), "
               "Arrhenius([g, RampedTemp([T0, dTdt])])({'temperature': T0, 'time': t}, backend=be))",
         formula="(rho*dr*g, rho*(dr*g + dr2*g2), 2*rho*dr*g, T0 + dTdt*t, T0 + Tamp*be.sin(w*t + ph), g*be.exp(-(T0 + dTdt*t)/T0))"),
    dict(name="Radiolytic_units", targets=["chempy.kinetics.rates.mk_Radiolytic"], setup=RS,
         vars={"g": POS, "rho": POS, "dr": POS}, plain="Radiolytic([g])({'density': rho, 'doserate': dr})",
         units="Radiolytic([g*U.mol/U.joule])({'density': rho*U.kg/U.dm3, 'doserate': dr*U.joule/U.kg/U.s})", unit="U.molar/U.s"),
    dict(name="equilibrium_expressions", targets=["chempy.thermodynamics.expressions.GibbsEqConst:eq_const",
                                                  "chempy.thermodynamics.expressions.MassActionEq:equilibrium_equation",
                                                  "chempy.thermodynamics.expressions.MassActionEq:active_conc_prod"], setup=RS,
         vars={"dHR": ANY, "dSR": ANY, "T": TR, "K": POS, "cA": POS, "cB": POS, "cC": POS},
         plain="(GibbsEqConst([dHR, dSR])({'temperature': T}, backend=be), MassActionEq([K]).equilibrium_equation({'A': cA, 'B': cB, 'C': cC}, "
               "equilibrium=Equilibrium({'A': 2, 'B': 1}, {'C': 3})), GibbsEqConst([dHR, dSR], unique_keys=('h', 's'))({'temperature': T, 's': K}, backend=be))",
         formula="(be.exp(dSR - dHR/T), K - cC**3/(cA**2*cB), be.exp(K - dHR/T))"),
    # parameters that are themselves expressions (temperature programmes), evaluated twice from the caller's own mapping
    dict(name="expr_valued_parameters", targets=["chempy.util._expr.Expr:all_params", "chempy.util._expr.Expr:arg"], setup=RS,
         vars={"a0": ANY, "a1": ANY, "T0": TR, "dTdt": POS, "t": POS, "t2": POS, "dHR": ANY, "dSR": ANY, "A": POS, "EaR": ANY, "cA": POS},
         plain="_twice(TPoly([a0, a1]), {'temperature': RampedTemp([T0, dTdt]), 'time': t}, {'time': t2}) + "
               "_twice(GibbsEqConst([dHR, dSR]), {'temperature': RampedTemp([T0, dTdt]), 'time': t}, {'time': t2}, backend=be) + "
               "_twice(MassAction(TPoly([A, EaR])), {'temperature': RampedTemp([T0, dTdt]), 'time': t, 'A': cA}, {'time': t2, 'A': 2*cA}, backend=be, reaction=rxn1) + "
               "_twice(Log10TPoly([a0, a1]), {'log10_temperature': TPoly([T0, dTdt]), 'temperature': t}, {'temperature': t2})",
         formula="(a0 + a1*(T0 + dTdt*t), a0 + a1*(T0 + dTdt*t2), 1, be.exp(dSR - dHR/(T0 + dTdt*t)), be.exp(dSR - dHR/(T0 + dTdt*t2)), 1, "
                 "(A + EaR*(T0 + dTdt*t))*cA, (A + EaR*(T0 + dTdt*t2))*2*cA, 1, a0 + a1*(T0 + dTdt*t), a0 + a1*(T0 + dTdt*t2), 1)"),
    # the rate of a reaction follows its `param` attribute (number, key, parameter set), also after it has been evaluated once
    dict(name="param_reassignment", targets=["chempy.chemistry.Reaction:rate_expr", "chempy.chemistry.Reaction:rate"], setup=RS,
         vars={"k1": POS, "k2": POS, "cA": POS, "A": POS, "Ea": ANY, "Ao": POS, "Eo": ANY, "T": TR},
         plain="_reparam(Reaction({'A': 2}, {'B': 1}, k1), k2, {'A': cA}, 'B') + "
               "_reparam(Reaction({'A': 2}, {'B': 1}, 'ka'), 'kb', {'A': cA, 'ka': k1, 'kb': k2}, 'A') + "
               "_reparam(Reaction({'A': 2}, {'B': 1}, ArrheniusParam(A, Ea)), ArrheniusParam(Ao, Eo), {'A': cA, 'temperature': T}, 'B', backend=be) + "
               "_reparam(Reaction({'A': 2}, {'B': 1}, MassAction(Arrhenius([A, Ea]))), MassAction(Arrhenius([Ao, Eo])), {'A': cA, 'temperature': T}, 'B', backend=be)",
         formula="(k1*cA**2, k2*cA**2, k2*cA**2, -2*k1*cA**2, -2*k2*cA**2, k2*cA**2, A*be.exp(-Ea/(R0*T))*cA**2, Ao*be.exp(-Eo/(R0*T))*cA**2, "
                 "Ao*be.exp(-Eo/(R0*T))*cA**2, A*be.exp(-Ea/T)*cA**2, Ao*be.exp(-Eo/T)*cA**2, Ao*be.exp(-Eo/T)*cA**2)"),
    # named overrides survive the conversion of a parameter set into a rate expression - plain and unit-carrying variants
    dict(name="param_set_unique_keys", targets=["chempy.kinetics.arrhenius.ArrheniusParam:as_RateExpr", "chempy.kinetics.arrhenius.ArrheniusParamWithUnits:as_RateExpr"],
         setup=RS + "from chempy.kinetics.arrhenius import ArrheniusParamWithUnits\n",
         vars={"A": POS, "Ea": ANY, "Ao": POS, "Eo": ANY, "T": TR, "cA": POS},
         plain="(ArrheniusParam(A, Ea).as_RateExpr(unique_keys=('A1', 'E1'))({'temperature': T, 'A1': Ao, 'A': cA}, reaction=rxn1, backend=be), "
               "ArrheniusParam(A, Ea).as_RateExpr(('A1', 'E1'))({'temperature': T, 'E1': Eo, 'A': cA}, reaction=rxn1, backend=be), "
               "ArrheniusParamWithUnits(A/U.s, Ea*U.J/U.mol).as_RateExpr(('A1', 'E1'), Cs, U)({'temperature': T*U.K, 'A1': Ao/U.s, 'A': cA*U.molar}, reaction=rxn1, backend=be), "
               "ArrheniusParamWithUnits(A/U.s, Ea*U.J/U.mol).as_RateExpr(unique_keys=('A1', 'E1'), constants=Cs, units=U)({'temperature': T*U.K, 'E1': Eo*U.K, 'A': cA*U.molar}, reaction=rxn1, backend=be), "
               "ArrheniusParamWithUnits(A/U.s, Ea*U.J/U.mol).as_RateExpr(None, Cs, U)({'temperature': T*U.K, 'A': cA*U.molar}, reaction=rxn1, backend=be))",
         formula="(Ao*be.exp(-Ea/(R0*T))*cA, A*be.exp(-Eo/T)*cA, Ao/U.s*be.exp(-Ea*U.J/U.mol/(Cs.molar_gas_constant*T*U.K))*cA*U.molar, "
                 "A/U.s*be.exp(-Eo/T)*cA*U.molar, A/U.s*be.exp(-Ea*U.J/U.mol/(Cs.molar_gas_constant*T*U.K))*cA*U.molar)"),
    # doserate names in the order GIVEN (not alphabetical): each yield belongs to the name at its position
    dict(name="Radiolytic_name_order", targets=["chempy.kinetics.rates.mk_Radiolytic"], setup=RS,
         vars={"g": POS, "g2": POS, "g3": POS, "rho": POS, "dr": POS, "dr2": POS, "dr3": POS, "go": POS},
         plain="(mk_Radiolytic('gamma', 'alpha')([g, g2])({'density': rho, 'doserate_gamma': dr, 'doserate_alpha': dr2}), "
               "mk_Radiolytic('neutron', 'gamma', 'alpha')([g, g2, g3])({'density': rho, 'doserate_neutron': dr, 'doserate_gamma': dr2, 'doserate_alpha': dr3}), "
               "mk_Radiolytic('gamma', 'alpha')([g, g2], unique_keys=('Gg', 'Ga'))({'density': rho, 'doserate_gamma': dr, 'doserate_alpha': dr2, 'Gg': go}))",
         formula="(rho*(dr*g + dr2*g2), rho*(dr*g + dr2*g2 + dr3*g3), rho*(dr*go + dr2*g2))"),
    dict(name="polynomials", targets=["chempy.util._expr.create_Poly"], setup=RS,
         vars={"a0": ANY, "a1": ANY, "a2": ANY, "a3": ANY, "T": TR, "Tref": TR, "lT": ANY},
         plain="(TPoly([a0, a1, a2, a3])({'temperature': T}), RTPoly([a0, a1, a2])({'temperature': T}), ShiftedTPoly([Tref, a0, a1, a2])({'temperature': T}), "
               "Log10TPoly([a0, a1, a2])({'log10_temperature': lT}), ShiftedRTPoly([Tref, a0, a1, a2])({'temperature': T}), "
               "MassAction(TPoly([a0, a1]))({'temperature': T, 'A': a2}, reaction=rxn1), TPoly([a0])({'temperature': T}), "
               "TPoly([a0, 0, a2])({'temperature': T}), RTPoly([a0, 0.0, a2])({'temperature': T}), ShiftedTPoly([Tref, a0, 0, a2])({'temperature': T}), "
               "TPoly([0, a1, 0, a3])({'temperature': T}), "
               "TPoly([a0, a1], unique_keys=(k_ for k_ in ('p0', 'p1')))({'temperature': T, 'p1': a3}), "
               "TPoly([a0, a1], unique_keys=iter(['p0', 'p1']))({'temperature': T, 'p0': a2}), "
               "TPoly([a0, a1], unique_keys=['p0', 'p1'])({'temperature': T, 'p0': a2, 'p1': a3}))",
         assume=["T - Tref >= 1"],
         formula="(a0 + a1*T + a2*T**2 + a3*T**3, a0 + a1/T + a2/T**2, a0 + a1*(T - Tref) + a2*(T - Tref)**2, a0 + a1*lT + a2*lT**2, "
                 "a0 + a1/(T - Tref) + a2/(T - Tref)**2, (a0 + a1*T)*a2, a0, a0 + a2*T**2, a0 + a2/T**2, a0 + a2*(T - Tref)**2, a1*T + a3*T**3, "
                 "a0 + a3*T, a2 + a1*T, a2 + a3*T)"),
    # LONG coefficient lists (10 and 18 terms; a reciprocal one with 12): every term is present, in order
    dict(name="polynomials_long", targets=["chempy.util._expr.create_Poly"], setup=RS,
         vars={"q0": ANY, "q1": ANY, "q2": ANY, "q3": ANY, "q4": ANY, "q5": ANY, "q6": ANY, "q7": ANY, "q8": ANY, "q9": ANY, "q10": ANY, "q11": ANY, "q12": ANY, "q13": ANY, "q14": ANY, "q15": ANY, "q16": ANY, "q17": ANY, "T": TR, "Tref": TR},
         plain="(TPoly([q0, q1, q2, q3, q4, q5, q6, q7, q8, q9])({'temperature': T}), TPoly([q0, q1, q2, q3, q4, q5, q6, q7, q8, q9, q10, q11, q12, q13, q14, q15, q16, q17])({'temperature': T}), RTPoly([q0, q1, q2, q3, q4, q5, q6, q7, q8, q9, q10, q11])({'temperature': T}), "
               "ShiftedTPoly([Tref, q0, q1, q2, q3, q4, q5, q6, q7, q8])({'temperature': T}))",
         assume=["T - Tref >= 1"],
         formula="(q0*T**0 + q1*T**1 + q2*T**2 + q3*T**3 + q4*T**4 + q5*T**5 + q6*T**6 + q7*T**7 + q8*T**8 + q9*T**9, q0*T**0 + q1*T**1 + q2*T**2 + q3*T**3 + q4*T**4 + q5*T**5 + q6*T**6 + q7*T**7 + q8*T**8 + q9*T**9 + q10*T**10 + q11*T**11 + q12*T**12 + q13*T**13 + q14*T**14 + q15*T**15 + q16*T**16 + q17*T**17, q0/T**0 + q1/T**1 + q2/T**2 + q3/T**3 + q4/T**4 + q5/T**5 + q6/T**6 + q7/T**7 + q8/T**8 + q9/T**9 + q10/T**10 + q11/T**11, q0*(T - Tref)**0 + q1*(T - Tref)**1 + q2*(T - Tref)**2 + q3*(T - Tref)**3 + q4*(T - Tref)**4 + q5*(T - Tref)**5 + q6*(T - Tref)**6 + q7*(T - Tref)**7 + q8*(T - Tref)**8)"),
]


def task_case(casename):
    return ucase.task_case("checks.C16", casename)


REPLAY_PW = '''
from chempy.util._expr import create_Piecewise
import sympy
bounds = %(bounds)s
vals = %(vals)s
x = %(x)s
PW = create_Piecewise("temperature")
args = []
for i, v in enumerate(vals):
    args += [bounds[i], v]
args.append(bounds[-1])
exp = None
for i, v in enumerate(vals):
    if bounds[i] <= x <= bounds[i + 1]:
        exp = v; break
try:
    got = PW(args)({"temperature": x})
except ValueError as e:
    got = "ValueError"
sym = PW(args)({"temperature": sympy.Symbol("T")}, backend=sympy).subs(sympy.Symbol("T"), sympy.Rational(x.numerator, x.denominator) if hasattr(x, "numerator") else x)
print("x", x, "bounds", bounds, "float/plain:", got, "expected (first closed interval containing x):", exp, "sympy:", sym)
sys.exit(0 if got == exp and sympy.nsimplify(sym) == sympy.nsimplify(exp) else 1)
'''


def task_piecewise(npieces):
    from chempy.util._expr import create_Piecewise

    PW = create_Piecewise("temperature")
    bounds = [Real("b%d" % i) for i in range(npieces + 1)]
    vals = [Real("v%d" % i) for i in range(npieces)]
    x = Real("x")
    assum = [a.t < b.t for a, b in zip(bounds, bounds[1:])] + [x.t >= bounds[0].t, x.t <= bounds[-1].t]

    def fn():
        args = []
        for i, v in enumerate(vals):
            args += [bounds[i], v]
        args.append(bounds[-1])
        return PW(args)({"temperature": x})

    def goal(p, twin=False):
        if p.kind == "exc":
            return False
        exp = lift(vals[-1])
        for i in reversed(range(npieces - 1)):
            exp = z3.If(z3.And(bounds[i].t <= x.t, x.t <= bounds[i + 1].t), vals[i].t, exp)
        if twin:
            exp = lift(vals[0])
        return lift(p.value) == exp

    o = explore_and_prove(fn, assum, goal)
    ot = explore_and_prove(fn, assum, lambda p: goal(p, True), max_fail=1)
    res = dict(engine="Z", functions=[env.describe(create_Piecewise)], obligations=o.obligations, discharged=o.discharged, violations=[],
               inconclusive=list(o.inconclusive), queries=o.queries, paths=o.paths, solver_s=o.solver_s, twin=twin_verdict(ot),
               bounds="%d pieces, symbolic increasing bounds, x anywhere in [first bound, last bound] (incl. the break points)" % npieces,
               sample={"pieces": npieces, "oracle": "value of the first piece whose closed interval contains x (what the sympy Piecewise denotes)"})
    for p, m, g in o.failed[:1]:
        res["violations"].append(dict(key="piecewise:%s" % p.kind, desc="bounds %s x=%s -> %r" % (concretize(m, bounds), model_value(m, x.t), p.value),
                                      replay_src=REPLAY_PW % dict(bounds=pyrepr(concretize(m, bounds)), vals=pyrepr([Fraction(10 * (i + 1)) for i in range(npieces)]),
                                                                  x=pyrepr(model_value(m, x.t)))))
    res["status"] = "violation" if res["violations"] else ("inconclusive" if res["inconclusive"] else "discharged")
    return res


# ---- expression algebra -------------------------------------------------------------------------------------------
OPS = {"add": operator.add, "sub": operator.sub, "mul": operator.mul, "div": operator.truediv, "pow": operator.pow}
LEAVES = ["E1", "E2", "E3", 0, 1, 2, 3.0]


def trees(depth):
    """operator trees: ('leaf', name) | ('neg', t) | (op, l, r) with at least one Expr leaf below every operator"""
    if depth == 0:
        return [("leaf", x) for x in LEAVES]
    sub = trees(depth - 1)
    small = trees(0)
    out = list(small)
    seen = set(out)
    for op in OPS:
        for l in sub:
            for r in (small if depth > 1 else sub):
                for a, b in ((l, r), (r, l)):
                    if has_expr(a) or has_expr(b):
                        t = (op, a, b)
                        if t not in seen:
                            seen.add(t)
                            out.append(t)
    for t in sub:
        if has_expr(t) and ("neg", t) not in seen:
            out.append(("neg", t))
    return out


def has_expr(t):
    if t[0] == "leaf":
        return isinstance(t[1], str)
    return any(has_expr(c) for c in t[1:])


def build(t, env_):
    if t[0] == "leaf":
        return env_[t[1]] if isinstance(t[1], str) else t[1]
    if t[0] == "neg":
        return -build(t[1], env_)
    return OPS[t[0]](build(t[1], env_), build(t[2], env_))


def show(t):
    if t[0] == "leaf":
        return str(t[1])
    if t[0] == "neg":
        return "(-%s)" % show(t[1])
    return "(%s %s %s)" % (show(t[1]), {"add": "+", "sub": "-", "mul": "*", "div": "/", "pow": "**"}[t[0]], show(t[2]))


REPLAY_TREE = '''
from chempy.util._expr import Constant, Symbol
from chempy.kinetics._rates import TPoly
import operator
tree = %(tree)r
vals = %(vals)s
OPS = {"add": operator.add, "sub": operator.sub, "mul": operator.mul, "div": operator.truediv, "pow": operator.pow}
def build(t, env_):
    if t[0] == "leaf": return env_[t[1]] if isinstance(t[1], str) else t[1]
    if t[0] == "neg": return -build(t[1], env_)
    return OPS[t[0]](build(t[1], env_), build(t[2], env_))
exprs = {"E1": Constant([vals["c"]]), "E2": Symbol(unique_keys=("x",)), "E3": TPoly([vals["p0"], vals["p1"]])}
variables = {"x": vals["x"], "temperature": vals["T"]}
leafvals = {"E1": vals["c"], "E2": vals["x"], "E3": vals["p0"] + vals["p1"] * vals["T"]}
try:
    exp = build(tree, leafvals)
except ZeroDivisionError:
    sys.exit(0)
obj = build(tree, exprs)
got = obj(variables) if hasattr(obj, "all_args") else obj
print("tree", tree, "values", vals, "got", got, "expected", exp)
ok = abs(complex(got) - complex(exp)) <= 1e-9 * max(1, abs(complex(exp)))
sys.exit(0 if ok else 1)
'''


def task_trees(tree_list, zero_x=False):
    from chempy.util._expr import Constant, Symbol, Expr
    from chempy.kinetics._rates import TPoly

    c, x, p0, p1, T = (Real(n) for n in ("c", "x", "p0", "p1", "T"))
    assum = [v.t >= lift(Fraction(1, 2)) for v in (c, x, p0, p1, T)] + [v.t <= 4 for v in (c, x, p0, p1, T)]
    res = dict(engine="Z", functions=[env.describe(Expr.__add__), env.describe(Expr.__sub__), env.describe(Expr.__rsub__), env.describe(Expr.__mul__),
                                      env.describe(Expr.__truediv__), env.describe(Expr.__rtruediv__), env.describe(Expr.__pow__),
                                      env.describe(Expr.__rpow__), env.describe(Expr.__neg__)],
               obligations=0, discharged=0, violations=[], inconclusive=[], queries=0, paths=0, solver_s=0.0,
               bounds="%d operator trees; leaf values in [1/2, 4] (keeps 0**negative and /0 away)" % len(tree_list))
    twin_hit = False
    for t in tree_list:
        def fn():
            exprs = {"E1": Constant([c]), "E2": Symbol(unique_keys=("x",)), "E3": TPoly([p0, p1])}
            obj = build(t, exprs)
            xv = 0 if zero_x else x   # boundary variant: the named symbol is bound to exactly zero (0**0, x*anything, anything**x)
            variables = {"x": xv, "temperature": T}
            exp = build(t, {"E1": c, "E2": xv, "E3": p0 + p1 * T})   # python's own arithmetic on the leaf values (may raise ZeroDivisionError)
            got = obj(variables, backend=ZBackend()) if isinstance(obj, Expr) else obj
            return got, exp

        def goal(p, twin=False):
            if p.kind == "exc":
                if isinstance(p.value, ZeroDivisionError):
                    return None
                return False
            got, exp = p.value
            return eq_term(got, exp if not twin else exp + 1)

        o = explore_and_prove(fn, assum, goal, prover=uf_prover, timeout_ms=10000)
        res["obligations"] += o.obligations
        res["discharged"] += o.discharged
        res["queries"] += o.queries
        res["paths"] += o.paths
        res["solver_s"] += o.solver_s
        res["inconclusive"] += ["%s: %s" % (show(t), i) for i in o.inconclusive]
        if not twin_hit and t[0] != "leaf":
            ot = explore_and_prove(fn, assum, lambda p: goal(p, True), prover=uf_prover, timeout_ms=10000, max_fail=1)
            twin_hit = bool(ot.failed)
        for p, m, g in o.failed[:1]:
            vals = {n: (model_value(m, z3.Real(n)) if m is not None else Fraction(3, 2)) for n in ("c", "x", "p0", "p1", "T")}
            vals = {k: (v if v != 0 else Fraction(3, 2)) for k, v in vals.items()}
            if zero_x:
                vals["x"] = 0
            res["violations"].append(dict(key="expr-tree:%s%s" % (show(t), ":x=0" if zero_x else ""), soft=True,
                                          desc="tree %s -> %s" % (show(t), "raised %r" % (p.value,) if p.kind == "exc" else "value differs"),
                                          replay_src=REPLAY_TREE % dict(tree=t, vals=pyrepr(vals))))
    res["twin"] = "violated" if twin_hit else "passed"
    res["sample"] = {"tree": show(tree_list[min(5, len(tree_list) - 1)]), "leaves": "E1=Constant(c), E2=Symbol('x'), E3=TPoly([p0,p1]) and the numbers 0, 1, 2, 3.0"}
    res["status"] = "violation" if res["violations"] else ("inconclusive" if res["inconclusive"] else "discharged")
    return res


def task_constants():
    from chempy.kinetics.arrhenius import _get_R
    from chempy.kinetics.eyring import _get_kB_over_h
    from vlib.usyms import CODATA

    checks = [("R", _get_R(), CODATA["R"]), ("kB/h", _get_kB_over_h(), CODATA["kB"] / CODATA["h"])]
    bad = [(n, a, b) for n, a, b in checks if abs(a / b - 1) > 2e-6]
    res = dict(engine="Z", functions=[env.describe(_get_R), env.describe(_get_kB_over_h)], obligations=len(checks), discharged=len(checks) - len(bad),
               violations=[], bounds="hard-coded constants vs CODATA within 2e-6", twin="n/a", sample={"constants": [c[0] for c in checks]})
    for n, a, b in bad:
        res["violations"].append(dict(key="constant:%s" % n, desc="%s = %r, CODATA %r" % (n, a, b), replay_src='''
from chempy.kinetics.arrhenius import _get_R
from chempy.kinetics.eyring import _get_kB_over_h
sys.exit(1 if abs(_get_R()/8.3144598 - 1) > 2e-6 or abs(_get_kB_over_h()/(1.38064852e-23/6.62607004e-34) - 1) > 2e-6 else 0)
'''))
    res["status"] = "violation" if bad else "discharged"
    return res


# cases whose real code multiplies by a FLOAT module constant (R, kB/h) are left out: sympy folds 1/8.314472 into a rounded Float, so
# the symbolic result differs from the exact-rational formula by float rounding (outside the claim) and no exact identity holds
SYMPY_CASES = ["rates_Arrhenius", "rates_Eyring", "equilibrium_expressions", "polynomials", "polynomials_long", "expr_valued_parameters"]

REPLAY_SYMPY = '''
sys.path.insert(0, "/verif")
from checks.C16 import replay_sympy
sys.exit(replay_sympy(%(case)r, %(point)s))
'''


def _sympy_ns(case, plain_symbols=False):
    import math
    import sympy as sp

    ns = {"Fraction": Fraction, "math": math, "be": sp, "Const": lambda x: sp.Rational(Fraction(x))}
    syms = {}
    for v, dom in case["vars"].items():
        lo, hi = dom
        if plain_symbols:
            syms[v] = sp.Symbol(v)
        else:
            syms[v] = sp.Symbol(v, integer=True) if v.startswith("n_") else sp.Symbol(v, positive=True) if (lo is not None and lo > 0) else sp.Symbol(v, real=True)
        ns[v] = syms[v]
    exec(case["setup"], ns)
    return ns, syms


def replay_sympy(casename, point, plain_symbols=False):
    """the statement's 'evaluated symbolically and then substituted': plain expression with backend=sympy on symbols, numbers substituted
    afterwards, compared with the float evaluation of the defining formula"""
    import sympy as sp

    case = [c for c in CASES if c["name"] == casename][0]
    ns, syms = _sympy_ns(case, plain_symbols)
    pt = {k: float(Fraction(v)) for k, v in point.items() if k in case["vars"]}
    try:
        val = eval(case["plain"], ns)
    except Exception as e:
        print("evaluation with the sympy backend raised %r" % (e,))
        return 1
    vals = list(val) if isinstance(val, (tuple, list)) else [val]
    nsf, _ = ucase._ns(case, "float", {k: float(Fraction(v)) for k, v in point.items()})
    ref = eval(case["formula"], nsf)
    ref = list(ref) if isinstance(ref, (tuple, list)) else [ref]
    bad = 0
    for i, (a, b) in enumerate(zip(vals, ref)):
        try:
            av = float(sp.N(sp.sympify(a).subs({syms[k]: v for k, v in pt.items()}), 30))
        except Exception as e:
            print("component %d: cannot substitute numbers into %r: %r" % (i, a, e))
            bad = 1
            continue
        if abs(av - float(b)) > 1e-9 * max(abs(av), abs(float(b))) + 1e-300:
            print("MISMATCH component %d: symbolic-then-substituted %r, formula %r" % (i, av, float(b)))
            bad = 1
    return bad


SYMPY_EVAL_ONLY = ["arrhenius_equation", "ArrheniusParam", "eyring_equation", "EyringParam"]


def task_sympy_eval(casename):
    """the cases with float module constants (R, kB/h): evaluated with backend=sympy on PLAIN symbols (no positivity assumption, as a user would
    create them); no exception may be raised and the substituted value agrees with the float formula at one point (concrete: the exact
    identity is not provable because sympy rounds 1/R; the Z-engine case of the same name carries the identity)"""
    import subprocess
    import sys as _sys

    case = [c for c in CASES if c["name"] == casename][0]
    point = {k: str(Fraction(3 + 2 * i, 2 + i) + (300 if case["vars"][k][0] == 200 else 0)) for i, k in enumerate(case["vars"])}
    src = ("import sys\nsys.path.insert(0, %r)\nsys.path.insert(0, %r)\nfrom vlib import env; env.setup()\nfrom checks.C16 import replay_sympy\n"
           "sys.exit(replay_sympy(%r, %r, plain_symbols=True))\n" % (env.VERIF, env.REPO, casename, point))
    r = subprocess.run([_sys.executable, "-c", src], capture_output=True, text=True, timeout=300, env=dict(__import__("os").environ, VERIF_REPO=env.REPO))
    res = dict(engine="concrete", functions=case.get("targets", []), obligations=1, discharged=1 if r.returncode == 0 else 0, violations=[], queries=0, twin="n/a",
               bounds="backend=sympy on plain symbols, value compared at one point (concrete sanity, not solver evidence)", sample={"case": casename})
    if r.returncode == 1:
        res["violations"].append(dict(key="sympy_eval:%s" % casename, desc="%s with backend=sympy on plain symbols: %s" % (casename, r.stdout[-300:]),
                                      replay_src=REPLAY_SYMPY_PLAIN % dict(case=casename, point=repr(point))))
    elif r.returncode != 0:
        res["inconclusive"] = ["sympy evaluation could not be run: %s" % r.stderr[-300:]]
    res["status"] = "violation" if res["violations"] else ("inconclusive" if res.get("inconclusive") else "discharged")
    return res


REPLAY_SYMPY_PLAIN = '''
sys.path.insert(0, "/verif")
from checks.C16 import replay_sympy
sys.exit(replay_sympy(%(case)r, %(point)s, plain_symbols=True))
'''


def task_sympy(casename):
    """Engine S: the same expression evaluated with backend=sympy on sympy symbols, translated to z3 (vlib/s2z.py) and proved equal to the
    defining formula for all values (the statement's 'symbolically and then substituted')"""
    import sympy as sp
    from vlib.s2z import Conv
    from vlib.ufnorm import UFNorm
    from vlib.zsym import term

    t0 = time.time()
    case = [c for c in CASES if c["name"] == casename][0]
    res = dict(engine="S", functions=case.get("targets", []), obligations=0, discharged=0, violations=[], inconclusive=[], queries=0, solver_s=0.0,
               bounds="vars %s, backend=sympy" % (case["vars"],), sample={"case": casename, "plain": case["plain"], "backend": "sympy"})
    nsz, assum = ucase._ns(case, "sym")
    ref = eval(case["formula"], nsz)
    ref = list(ref) if isinstance(ref, (tuple, list)) else [ref]
    ns, syms = _sympy_ns(case)
    point = {k: str(Fraction(3 + 2 * i, 2 + i) + (200 if case["vars"][k][0] == 200 else 0)) for i, k in enumerate(case["vars"])}
    try:
        val = eval(case["plain"], ns)
    except Exception as e:
        res["obligations"] = 1
        res["violations"].append(dict(key="sympy:%s:exc" % casename, soft=True, desc="%s with backend=sympy raised %r" % (casename, e),
                                      replay_src=REPLAY_SYMPY % dict(case=casename, point=repr(point))))
        res["status"] = "violation"
        return res
    vals = list(val) if isinstance(val, (tuple, list)) else [val]
    conv = Conv()
    for v in case["vars"]:
        if v.startswith("n_"):
            conv.vars[v] = z3.ToReal(z3.Int(v))
    tw = None
    for i, (a, b) in enumerate(zip(vals, ref)):
        res["obligations"] += 1
        try:
            az = conv(sp.sympify(a))
        except NotImplementedError as e:
            res["inconclusive"].append("component %d: translation: %s" % (i, e))
            continue
        bz = term(b)
        if z3.is_int(bz):
            bz = z3.ToReal(bz)
        norm = UFNorm(assum, timeout_ms=10000)
        r, m = norm.prove(az == bz, timeout_ms=30000)
        res["queries"] += 1 + norm.stats["arg_queries"]
        if tw is None:
            tw = UFNorm(assum, timeout_ms=5000).prove(az == bz + 1)[0]
        if r == "unsat":
            res["discharged"] += 1
        elif r == "sat":
            pt = dict(point)
            try:
                for k in case["vars"]:
                    pt[k] = str(model_value(m, z3.Int(k) if k.startswith("n_") else z3.Real(k)))
            except Exception:
                pass
            if not res["violations"]:
                res["violations"].append(dict(key="sympy:%s:value" % casename, soft=True,
                                              desc="%s component %d with backend=sympy: %s differs from the formula" % (casename, i, a),
                                              replay_src=REPLAY_SYMPY % dict(case=casename, point=repr(pt))))
        else:
            res["inconclusive"].append("component %d: solver %s" % (i, r))
    res["twin"] = "violated" if tw == "sat" else ("passed" if tw == "unsat" else "unknown")
    res["solver_s"] = time.time() - t0
    res["status"] = "violation" if res["violations"] else ("inconclusive" if res["inconclusive"] else "discharged")
    return res


def tasks(tier, seed):
    import random

    ts = [dict(id="C16.%s" % c["name"], fn="task_case", kwargs=dict(casename=c["name"]), timeout=600) for c in CASES]
    ts += [dict(id="C16.sympy.%s" % n, fn="task_sympy", kwargs=dict(casename=n), timeout=600) for n in SYMPY_CASES]
    ts += [dict(id="C16.sympy_eval.%s" % n, fn="task_sympy_eval", kwargs=dict(casename=n), timeout=600) for n in SYMPY_EVAL_ONLY]
    ts += [dict(id="C16.piecewise.%d" % n, fn="task_piecewise", kwargs=dict(npieces=n), timeout=300) for n in ((2, 3, 5, 9) if tier == "quick" else (2, 3, 4, 5, 6, 7, 9, 12, 17))]
    ts.append(dict(id="C16.constants", fn="task_constants", kwargs={}, timeout=60))
    tl = [t for t in trees(1) if t[0] != "leaf"] + [t for t in trees(2) if t[0] != "leaf" and t not in trees(1)]
    if tier == "quick":
        rnd = random.Random(seed)
        d2 = tl[len([t for t in trees(1) if t[0] != "leaf"]):]
        rnd.shuffle(d2)
        tl = [t for t in trees(1) if t[0] != "leaf"] + d2[:600]
    n = 14
    for i in range(n):
        ch = tl[i::n]
        if ch:
            ts.append(dict(id="C16.expr_trees.%02d" % i, fn="task_trees", kwargs=dict(tree_list=ch), timeout=1500))
    zt = [t for t in tl if "E2" in repr(t)]
    for i in range(4):
        ch = zt[i::4][: (120 if tier == "quick" else 100000)]
        if ch:
            ts.append(dict(id="C16.expr_trees.zero.%02d" % i, fn="task_trees", kwargs=dict(tree_list=ch, zero_x=True), timeout=1500))
    return ts
