"""Engine Z: z3-backed duck-typed numbers with path forking by re-execution.

A ``SymNum`` wraps a z3 Int/Real term and implements Python's number protocol;
``SymBool.__bool__`` is the fork point.  ``Ctx.explore(fn)`` runs ``fn`` once per
feasible decision vector (depth first; z3 decides feasibility of every branch
under the current path condition) and returns, per path, the path condition
and the returned object / raised exception.  The *real* chempy functions are
what ``fn`` calls - nothing is re-implemented here but the numbers.
"""
import fractions
import math
import time

import z3


class PathAbort(BaseException):
    """raised inside a run to drop an infeasible / over-budget path (BaseException: never caught by chempy)"""


class SymTypeError(TypeError):
    """the wrapper cannot carry this operation (int(), float(), index, ...)"""


class Budget(RuntimeError):
    pass


class Path(object):
    __slots__ = ("pc", "kind", "value", "decisions", "notes")

    def __init__(self, pc, kind, value, decisions, notes):
        self.pc, self.kind, self.value, self.decisions, self.notes = pc, kind, value, decisions, notes

    def __repr__(self):
        return "Path(%s, %s, %r)" % (self.decisions, self.kind, self.value)


class Ctx(object):
    cur = None

    def __init__(self, assumptions=(), max_paths=5000, timeout_ms=20000, max_pow=6):
        self.assumptions = list(assumptions)
        self.max_paths = max_paths
        self.timeout_ms = timeout_ms
        self.max_pow = max_pow
        self.stats = dict(paths=0, queries=0, unknown_feasibility=0, solver_s=0.0, unsupported=0)
        self._solver = z3.Solver()
        self._solver.set("timeout", timeout_ms)
        self._solver.add(*self.assumptions)
        self._fresh = 0
        self._known = {}

    # -- solver helpers -------------------------------------------------
    def check(self, *extra):
        """satisfiability of assumptions + extra; returns 'sat' / 'unsat' / 'unknown'"""
        t0 = time.time()
        self._solver.push()
        try:
            self._solver.add(*extra)
            r = str(self._solver.check())
        finally:
            self._solver.pop()
        self.stats["queries"] += 1
        self.stats["solver_s"] += time.time() - t0
        return r

    def model(self, *extra):
        t0 = time.time()
        self._solver.push()
        try:
            self._solver.add(*extra)
            r = str(self._solver.check())
            m = self._solver.model() if r == "sat" else None
        finally:
            self._solver.pop()
        self.stats["queries"] += 1
        self.stats["solver_s"] += time.time() - t0
        from . import crosscheck

        if crosscheck.enabled():
            crosscheck.check(list(self.assumptions) + list(extra), r)
        return r, m

    def add_assumption(self, *a):
        self.assumptions.extend(a)
        self._solver.add(*a)

    def fresh(self, prefix, sort="real"):
        self._fresh += 1
        name = "%s!%d" % (prefix, self._fresh)
        return z3.Real(name) if sort == "real" else z3.Int(name)

    # -- forking ---------------------------------------------------------
    def _fresh_run(self, prefix):
        self.run_id = getattr(self, "run_id", 0) + 1
        self.prefix = list(prefix)
        self.pos = 0
        self.pc = []
        self.decisions = []
        self.notes = []
        self._run_fresh = 0
        self._known = {}

    def run_fresh(self, prefix, sort="real"):
        """fresh variable whose name is deterministic per position within one run (stable across re-executions)"""
        self._run_fresh += 1
        name = "%s?%d" % (prefix, self._run_fresh)
        return z3.Real(name) if sort == "real" else z3.Int(name)

    def decide(self, cond):
        cond = z3.simplify(cond)
        if z3.is_true(cond):
            return True
        if z3.is_false(cond):
            return False
        # a condition already decided on this path (structurally the same term: z3 hash-conses) keeps its answer without a new
        # decision point - repeated evaluations of the same code (history obligations) would otherwise pay a solver proof per repeat
        k = self._known.get(cond.get_id())
        if k is not None:
            return k[1]
        if z3.is_not(cond):
            k = self._known.get(cond.arg(0).get_id())
            if k is not None:
                return not k[1]
        if self.pos < len(self.prefix):
            d = self.prefix[self.pos]
        else:
            d = None
            for cand in (True, False):
                r = self.check(*(self.pc + [cond if cand else z3.Not(cond)]))
                if r != "unsat":
                    if r == "unknown":
                        self.stats["unknown_feasibility"] += 1
                    d = cand
                    break
            if d is None:
                raise PathAbort("infeasible")
        self.pos += 1
        self.decisions.append(d)
        self.pc.append(cond if d else z3.Not(cond))
        self._known[cond.get_id()] = (cond, d)
        return d

    def iter_paths(self, fn):
        """generator of Path for every feasible path of fn() (fn must be deterministic given the decisions)"""
        work = [[]]
        while work:
            prefix = work.pop()
            self._fresh_run(prefix)
            prev = Ctx.cur
            Ctx.cur = self
            try:
                try:
                    res = ("ok", fn())
                except PathAbort:
                    continue
                except Exception as e:  # noqa
                    res = ("exc", e)
            finally:
                Ctx.cur = prev
            self.stats["paths"] += 1
            if self.stats["paths"] > self.max_paths:
                raise Budget("path budget %d exceeded" % self.max_paths)
            pc, decisions = list(self.pc), list(self.decisions)
            for i in range(len(prefix), len(decisions)):
                r = self.check(*(pc[:i] + [z3.Not(pc[i])]))
                if r != "unsat":
                    if r == "unknown":
                        self.stats["unknown_feasibility"] += 1
                    work.append(decisions[:i] + [not decisions[i]])
            yield Path(pc, res[0], res[1], decisions, list(self.notes))

    def explore(self, fn):
        return list(self.iter_paths(fn))


# ---------------------------------------------------------------------------
def _q(x):
    if isinstance(x, fractions.Fraction):
        return z3.Q(x.numerator, x.denominator)
    n, d = x.as_integer_ratio()
    return z3.Q(n, d)


def lift(x, like=None):
    """python value -> z3 term (exact); None when not a number"""
    if isinstance(x, Sym):
        return x.t
    if isinstance(x, bool):
        return z3.BoolVal(x)
    if isinstance(x, int):
        if like is not None and z3.is_int(like):
            return z3.IntVal(x)
        return z3.RealVal(x)
    if isinstance(x, float):
        if math.isinf(x) or math.isnan(x):
            return None
        return _q(x)
    if isinstance(x, fractions.Fraction):
        return _q(x)
    try:
        import numpy as np

        if isinstance(x, np.integer):
            return lift(int(x), like)
        if isinstance(x, np.floating):
            return lift(float(x), like)
        if isinstance(x, np.ndarray) and x.shape == ():
            return lift(x.item(), like)
    except ImportError:
        pass
    return None


def toreal(t):
    return z3.ToReal(t) if z3.is_int(t) else t


def _coerce(a, b):
    if z3.is_int(a) and z3.is_real(b):
        a = z3.ToReal(a)
    elif z3.is_int(b) and z3.is_real(a):
        b = z3.ToReal(b)
    return a, b


class Sym(object):
    # NOTE: no __array_priority__: with it numpy declines IN-PLACE operators too (``arr -= sym`` silently became ``arr = arr - sym``),
    # which hid aliasing of the caller's arrays; object arrays combine element-wise with a Sym through numpy's own loops
    __slots__ = ("t",)

    def __init__(self, t):
        self.t = t

    def __repr__(self):
        return "Sym(%s)" % z3.simplify(self.t)

    def __str__(self):
        # text made from a symbolic number is harmless in a message, but a RESULT that depends on it (keys built from digits, ...) has left
        # the symbolic domain: the path is marked, and a failing goal on a marked path is a soft candidate (see zrun.soft_path)
        if Ctx.cur is not None:
            Ctx.cur.notes.append("str")
        return self.__repr__()

    def __format__(self, spec):
        return format(self.__str__(), spec) if spec in ("", "s") or spec.endswith("s") else self.__str__()

    def __hash__(self):
        return hash(self.t)


class SymBool(Sym):
    __slots__ = ()

    def __bool__(self):
        c = Ctx.cur
        if c is None:
            s = z3.simplify(self.t)
            if z3.is_true(s):
                return True
            if z3.is_false(s):
                return False
            raise SymTypeError("symbolic bool outside exploration")
        return c.decide(self.t)

    def __and__(self, o):
        return SymBool(z3.And(self.t, lift(o)))

    __rand__ = __and__

    def __or__(self, o):
        return SymBool(z3.Or(self.t, lift(o)))

    __ror__ = __or__

    def __invert__(self):
        return SymBool(z3.Not(self.t))

    def __eq__(self, o):
        return SymBool(self.t == lift(o))

    def __ne__(self, o):
        return SymBool(self.t != lift(o))

    __hash__ = Sym.__hash__

    # bool is an int in python: (a > 0) - (a < 0), sum(flags), ...
    def _num(self):
        return SymNum(z3.If(self.t, z3.IntVal(1), z3.IntVal(0)))

    def __add__(self, o):
        return self._num() + (o._num() if isinstance(o, SymBool) else o)

    __radd__ = __add__

    def __sub__(self, o):
        return self._num() - (o._num() if isinstance(o, SymBool) else o)

    def __rsub__(self, o):
        return (o._num() if isinstance(o, SymBool) else o) - self._num()

    def __mul__(self, o):
        return self._num() * (o._num() if isinstance(o, SymBool) else o)

    __rmul__ = __mul__

    def __neg__(self):
        return -self._num()


UF = {}


def uf(name, arity=1):
    key = (name, arity)
    if key not in UF:
        UF[key] = z3.Function(name, *([z3.RealSort()] * (arity + 1)))
    return UF[key]


class SymNum(Sym):
    __slots__ = ()

    # -- helpers
    def _bin(self, o, f, rev=False):
        if type(o).__name__ == "ndarray":
            import numpy as np

            out = np.empty(o.shape, dtype=object)
            for idx in np.ndindex(o.shape):
                out[idx] = self._bin(o[idx], f, rev)
            return out
        ot = lift(o, self.t)
        if ot is None or z3.is_bool(ot):
            return NotImplemented
        a, b = _coerce(self.t, ot)
        if rev:
            a, b = b, a
        return SymNum(f(a, b))

    @property
    def is_int(self):
        return z3.is_int(self.t)

    @property
    def is_integer(self):
        # sympy-Integer duck attribute (chempy accepts sympy Integers as multipliers of equilibria)
        return z3.is_int(self.t)

    # quantities' duck attribute read unguarded by chempy (_get_R): identity
    @property
    def simplified(self):
        return self

    # arithmetic with +-inf (python float) follows IEEE: decided without the solver except for the sign of a factor
    @staticmethod
    def _isinf(o):
        return isinstance(o, float) and math.isinf(o)

    def _signed_inf(s, o):
        if SymBool(s.t > 0):
            return o
        if SymBool(s.t < 0):
            return -o
        return float("nan")

    def __add__(s, o):
        if s._isinf(o):
            return o
        return s._bin(o, lambda a, b: a + b)

    def __radd__(s, o):
        if s._isinf(o):
            return o
        return s._bin(o, lambda a, b: a + b, True)

    def __sub__(s, o):
        if s._isinf(o):
            return -o
        return s._bin(o, lambda a, b: a - b)

    def __rsub__(s, o):
        if s._isinf(o):
            return o
        return s._bin(o, lambda a, b: a - b, True)

    def __mul__(s, o):
        if isinstance(o, str):
            return NotImplemented
        if s._isinf(o):
            return s._signed_inf(o)
        return s._bin(o, lambda a, b: a * b)

    def __rmul__(s, o):
        if isinstance(o, str):
            c = Ctx.cur
            if c is not None and getattr(c, "str_mul_fork", None) is not None:
                return o * fork_int(s, 0, c.str_mul_fork)  # a real str: the repeat count is decided by solver forks on this path
            return SegStr([(o, s)])
        if s._isinf(o):
            return s._signed_inf(o)
        return s._bin(o, lambda a, b: a * b, True)

    def __neg__(s):
        return SymNum(-s.t)

    def __pos__(s):
        return s

    def __abs__(s):
        return SymNum(z3.If(s.t >= 0, s.t, -s.t))

    @staticmethod
    def _np_zero_div(num, den):
        """numpy float semantics of a division by zero (x/0 = +-inf, 0/0 = nan) when the context asks for it
        (code whose operands are numpy float64 in production, e.g. the values returned by pyodesys' f_cb)"""
        c = Ctx.cur
        if c is None or not getattr(c, "numpy_div", False) or not isinstance(den, SymNum):
            return None
        if SymBool(den.t == 0):
            nt = lift(num)
            if nt is None:
                return float("nan")
            if SymBool(toreal(nt) > 0):
                return float("inf")
            if SymBool(toreal(nt) < 0):
                return float("-inf")
            return float("nan")
        return None

    def __truediv__(s, o):
        if s._isinf(o):
            return 0.0
        z = s._np_zero_div(s, o)
        if z is not None:
            return z
        return s._bin(o, lambda a, b: toreal(a) / toreal(b))

    def __rtruediv__(s, o):
        z = s._np_zero_div(o, s)
        if z is not None:
            return z
        if s._isinf(o):
            return s._signed_inf(o)
        return s._bin(o, lambda a, b: toreal(a) / toreal(b), True)

    def __floordiv__(s, o):
        ot = lift(o, s.t)
        if ot is None or not (z3.is_int(s.t) and z3.is_int(ot)):
            raise SymTypeError("floordiv on non-int symbolic")
        if z3.is_int_value(ot) and ot.as_long() > 0:
            return SymNum(s.t / ot)  # z3 int div == floor for positive divisor
        # general python floor division via fork on the sign of the divisor
        if SymBool(ot > 0):
            return SymNum(s.t / ot)
        if SymBool(ot < 0):
            return SymNum((-s.t) / (-ot))
        raise ZeroDivisionError("integer division or modulo by zero")

    def __rfloordiv__(s, o):
        return SymNum(lift(o, s.t)).__floordiv__(s)

    def __mod__(s, o):
        ot = lift(o, s.t)
        if ot is None or not (z3.is_int(s.t) and z3.is_int(ot)):
            raise SymTypeError("mod on non-int symbolic")
        if z3.is_int_value(ot) and ot.as_long() > 0:
            return SymNum(s.t % ot)
        if SymBool(ot > 0):
            return SymNum(s.t % ot)
        if SymBool(ot < 0):
            return SymNum(-((-s.t) % (-ot)))
        raise ZeroDivisionError("integer division or modulo by zero")

    def __rmod__(s, o):
        return SymNum(lift(o, s.t)).__mod__(s)

    def __divmod__(s, o):
        return s // o, s % o

    def __pow__(s, o):
        if isinstance(o, SymNum) and z3.is_int(o.t):
            sv = z3.simplify(o.t)
            if z3.is_int_value(sv):
                o = sv.as_long()
            else:
                c = Ctx.cur
                mp = c.max_pow if c is not None else 6
                for k in list(range(0, mp + 1)) + list(range(-1, -mp - 1, -1)):
                    if SymBool(o.t == k):
                        return s ** k
                raise SymTypeError("symbolic exponent outside +-%d" % mp)
        if isinstance(o, bool):
            o = int(o)
        if isinstance(o, float) and o == int(o) and abs(o) < 64:
            o = int(o)
        if isinstance(o, int):
            r = z3.RealVal(1) if z3.is_real(s.t) else z3.IntVal(1)
            for _ in range(abs(o)):
                r = r * s.t
            if o < 0:
                r = 1 / toreal(r)
            return SymNum(r)
        if isinstance(o, (float, fractions.Fraction)) and 2 * o == int(2 * o) and abs(o) < 16:
            # half-integer power: sqrt(s)**(2*o); sqrt is a UF with its defining axioms (see ufnorm)
            return SymNum(uf("sqrt")(toreal(s.t))) ** int(2 * o)
        ot = lift(o)
        if ot is None:
            return NotImplemented
        return SymNum(uf("pow", 2)(toreal(s.t), toreal(ot)))

    def __rpow__(s, o):
        if type(o).__name__ == "ndarray":
            import numpy as np

            out = np.empty(o.shape, dtype=object)
            for idx in np.ndindex(o.shape):
                out[idx] = o[idx] ** s
            return out
        ot = lift(o)
        if ot is None:
            return NotImplemented
        if isinstance(o, (int, float, fractions.Fraction)) and not isinstance(o, bool) and o == 0 and Ctx.cur is not None:
            # python: 0 ** 0 == 1, 0 ** positive == 0, 0 ** negative raises - decided by forks on the symbolic exponent
            if SymBool(s.t == 0):
                return 1
            if SymBool(s.t < 0):
                raise ZeroDivisionError("0 cannot be raised to a negative power")
            return 0
        if z3.is_int(s.t):
            sv = z3.simplify(s.t)
            if z3.is_int_value(sv):
                return SymNum(ot) ** sv.as_long()
            return SymNum(ot) ** s
        return SymNum(uf("pow", 2)(toreal(ot), s.t))

    def _cmp(s, o, f):
        if isinstance(o, float) and math.isinf(o):
            big, small = z3.RealVal(1), z3.RealVal(0)
            return SymBool(z3.simplify(f(small, big) if o > 0 else f(big, small)))
        ot = lift(o, s.t)
        if ot is None or z3.is_bool(ot):
            return NotImplemented
        a, b = _coerce(s.t, ot)
        return SymBool(f(a, b))

    def __lt__(s, o):
        return s._cmp(o, lambda a, b: a < b)

    def __le__(s, o):
        return s._cmp(o, lambda a, b: a <= b)

    def __gt__(s, o):
        return s._cmp(o, lambda a, b: a > b)

    def __ge__(s, o):
        return s._cmp(o, lambda a, b: a >= b)

    def __eq__(s, o):
        r = s._cmp(o, lambda a, b: a == b)
        return False if r is NotImplemented else r

    def __ne__(s, o):
        r = s._cmp(o, lambda a, b: a != b)
        return True if r is NotImplemented else r

    def __hash__(s):
        # sets / dict keys of symbolic numbers: carried for small integers by forking on the value (then python's own
        # hash/eq protocol is exact on that path); anything else is not carried
        if z3.is_int(s.t) and Ctx.cur is not None:
            for k in range(-8, 9):
                if SymBool(s.t == k):
                    return hash(k)
        s._unsup("hash")

    def __bool__(s):
        return bool(SymBool(s.t != 0))

    def _unsup(s, what):
        if Ctx.cur is not None:
            Ctx.cur.stats["unsupported"] += 1
            Ctx.cur.notes.append("unsupported:" + what)
        raise SymTypeError("symbolic number does not support %s()" % what)

    def __int__(s):
        s._unsup("int")

    def __float__(s):
        s._unsup("float")

    def __index__(s):
        s._unsup("index")

    def __round__(s, n=None):
        """round(x) with python's round-half-to-even (ndigits not supported)"""
        if n is not None:
            s._unsup("round(ndigits)")
        if z3.is_int(s.t):
            return s
        f = z3.ToInt(s.t + z3.Q(1, 2))  # floor(x + 1/2)
        tie = z3.ToReal(f) == s.t + z3.Q(1, 2)
        return SymNum(z3.If(z3.And(tie, f % 2 != 0), f - 1, f))

    def truncated(s):
        """int(x) semantics (truncation towards zero) as an integer-sorted symbol"""
        if z3.is_int(s.t):
            return s
        return SymNum(z3.If(s.t >= 0, z3.ToInt(s.t), -z3.ToInt(-s.t)))

    def __trunc__(s):
        s._unsup("trunc")

    def __floor__(s):
        s._unsup("floor")

    def __ceil__(s):
        s._unsup("ceil")


class SegStr(object):
    """symbolic string: concatenation of (literal, symbolic repeat count) segments (for ``"M" * n``)"""

    def __init__(self, segs):
        self.segs = list(segs)

    def __add__(self, o):
        if isinstance(o, SegStr):
            return SegStr(self.segs + o.segs)
        if isinstance(o, str):
            return SegStr(self.segs + [(o, 1)]) if o else self
        return NotImplemented

    def __radd__(self, o):
        if isinstance(o, str):
            return SegStr([(o, 1)] + self.segs) if o else self
        return NotImplemented

    def __repr__(self):
        return "SegStr(%r)" % (self.segs,)


def fork_int(v, lo, hi):
    """concrete python int equal to the symbolic integer v on this path (forks over lo..hi)"""
    if not isinstance(v, SymNum):
        return v
    for k in range(lo, hi + 1):
        if SymBool(v.t == k):
            return k
    raise PathAbort("value outside %d..%d" % (lo, hi))


def Real(name):
    return SymNum(z3.Real(name))


def Int(name):
    return SymNum(z3.Int(name))


def Const(x):
    """exact symbolic constant for a python float/Fraction/int (keeps float*float folding out of the way)"""
    return SymNum(lift(x if not isinstance(x, int) else fractions.Fraction(x)))


def term(x, like=None):
    t = lift(x, like)
    if t is None:
        raise SymTypeError("not a number: %r" % (x,))
    return t


class _SymIntMeta(type):
    def __instancecheck__(cls, obj):
        return isinstance(obj, _builtin_int) or (isinstance(obj, SymNum) and z3.is_int(obj.t))


_builtin_int = int


class sym_int(int, metaclass=_SymIntMeta):
    """drop-in for ``int`` injected as a module global: identity on integer-sorted symbols, the builtin otherwise;
    ``isinstance(x, int)`` keeps working (true for python ints and integer-sorted symbols)"""

    def __new__(cls, x=0, *a):
        if isinstance(x, SymNum):
            if z3.is_int(x.t):
                return x
            raise SymTypeError("int() of a real-sorted symbol")
        return _builtin_int(x, *a)


def sym_float(x):
    if isinstance(x, SymNum):
        return SymNum(toreal(x.t))
    return float(x)


_EXACT = {("exp", 0): 1, ("cos", 0): 1, ("sin", 0): 0, ("log", 1): 0, ("sqrt", 0): 0, ("sqrt", 1): 1,
          ("tanh", 0): 0, ("atanh", 0): 0, ("log10", 1): 0, ("cosh", 0): 1, ("sinh", 0): 0}


class ZBackend(object):
    """``backend=`` object whose transcendental functions are uninterpreted functions"""

    pi = math.pi
    e = math.e
    _names = {
        "exp": "exp", "log": "log", "ln": "log", "sqrt": "sqrt", "tanh": "tanh", "atanh": "atanh",
        "arctanh": "atanh", "cos": "cos", "sin": "sin", "log10": "log10", "cosh": "cosh", "sinh": "sinh",
    }

    def __init__(self):
        self.calls = []

    def _mk(self, name):
        f = uf(name)

        def g(x):
            if isinstance(x, (int, float)) and (name, x) in _EXACT:
                return _EXACT[(name, x)]
            if hasattr(x, "_z_apply"):
                return x._z_apply(name, g)
            t = lift(x)
            if t is None:
                if hasattr(x, "__iter__"):
                    import numpy as np

                    out = np.empty(len(x), dtype=object)
                    for i, xi in enumerate(x):
                        out[i] = g(xi)
                    return out
                raise SymTypeError("backend.%s(%r)" % (name, x))
            r = SymNum(f(toreal(t)))
            self.calls.append((name, t, r.t))
            return r

        return g

    def __getattr__(self, name):
        if name in self._names:
            return self._mk(self._names[name])
        raise AttributeError(name)

    def Abs(self, x):
        return abs(x)

    abs = Abs


_NP_BACKEND = ZBackend()


def _np_method(name):
    def m(s):
        return getattr(_NP_BACKEND, name)(s)

    m.__name__ = name
    return m


# numpy's object-dtype ufunc loops call a METHOD of the same name on every element (np.exp(a) -> a[i].exp()): these make
# np.exp / np.log / np.sqrt / np.tanh / np.arctanh on object arrays of SymNum produce the same uninterpreted applications as ZBackend
for _n in ("exp", "log", "sqrt", "tanh", "arctanh", "log10"):
    setattr(SymNum, _n, _np_method(_n))


# ---------------------------------------------------------------------------
def model_value(m, t):
    """concrete python value (int / Fraction / bool) of term t in model m (model completion on)"""
    v = m.eval(t, model_completion=True)
    if z3.is_int_value(v):
        return v.as_long()
    if z3.is_rational_value(v):
        return fractions.Fraction(v.numerator_as_long(), v.denominator_as_long())
    if z3.is_true(v):
        return True
    if z3.is_false(v):
        return False
    if z3.is_algebraic_value(v):
        a = v.approx(30)
        return fractions.Fraction(a.numerator_as_long(), a.denominator_as_long())
    raise ValueError("cannot concretise %s" % v)


def free_vars(t, acc=None):
    acc = {} if acc is None else acc
    seen = set()

    def walk(x):
        if x.get_id() in seen:
            return
        seen.add(x.get_id())
        if z3.is_const(x) and x.decl().kind() == z3.Z3_OP_UNINTERPRETED:
            acc[x.decl().name()] = x
        for c in x.children():
            walk(c)

    walk(t)
    return acc


def prove(assumptions, goal, timeout_ms=30000):
    """('unsat', None) when assumptions => goal; ('sat', model) with a counterexample; ('unknown', None)"""
    s = z3.Solver()
    s.set("timeout", timeout_ms)
    s.add(*assumptions)
    s.add(z3.Not(goal))
    r = str(s.check())
    return r, (s.model() if r == "sat" else None)
