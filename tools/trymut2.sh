#!/bin/bash
# usage: tools/trymut2.sh <patch.diff> <PROP> [tier] -- like trymut.sh but in a scratch worktree (VERIF_REPO), so /repo is untouched
# and several seeded changes can be tried in parallel.  Development aid; the registered commands always analyse /repo.
set -u
P="$(readlink -f "$1")"; ID="$2"; TIER="${3:-quick}"
WT="/tmp/mutwt-$$"
git -C /repo worktree add -q --detach "$WT" HEAD || exit 2
( cd "$WT" && git apply "$P" ) || { echo "patch does not apply"; git -C /repo worktree remove --force "$WT"; exit 2; }
cd /verif
VERIF_REPO="$WT" ./check "$ID" --tier "$TIER" 2>&1 | grep -E "^(VIOLATION|KNOWN-FINDING|HARNESS-ERROR|INCONCLUSIVE|==|  counterexample)" | cut -c1-300 | head -${LINES_MAX:-12}
rc=${PIPESTATUS[0]}
git -C /repo worktree remove --force "$WT"
echo "exit=$rc"
