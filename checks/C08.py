"""C08 - (claimed part) the predicates that decide 'sane result' and the precipitation switching conditions (Engine Z).

Not applicable to this technique (and not claimed): that a converged numerical root satisfies Q=K and conservation to tolerance, the
19/20 success rate of the default solver chain and the agreement with the bracketing scalar solver - all properties of MINPACK /
KINSOL / scipy.brentq runs on floats.
"""
import itertools
import time
import warnings
from fractions import Fraction

import numpy as np
import z3

from vlib import env, gen
from vlib.zrun import twin_verdict, wrapper_exc, explore_and_prove, eq_term, concretize, pyrepr
from vlib.zsym import Real, SymNum, SymTypeError, lift, model_value, _q

META = {
    "level": "other",
    "explanation": "bounded symbolic verification (Engine Z) of the predicates behind 'success and sane': _result_is_sane(c0, x) is executed on "
                   "symbolic x and c0 and z3 proves it returns True <=> (all x_i >= 0 and x_i <= (1+1e-9)*min_e(total_e/atoms)) with the bound "
                   "written independently from the compositions; dissolved(x) removes the solid and conserves every element and charge; the "
                   "forward/backward precipitation switching conditions are proved equivalent to the Ksp comparison of the statement in "
                   "both orientations of the dissolution equilibrium",
    "bounds": {"quick": "systems with <= 5 species from the homogeneous and precipitation pools; all real x, c0 >= 0, K > 0",
               "thorough": "systems with <= 7 species"},
    "assumptions": [
        "stub on the instance: upper_conc_bounds(c0) -> the real method with dtype=object (symbolic c0)",
        "soundness / success rate of the numerical root finders and agreement with brentq: not applicable (float solvers)",
    ],
    "outside": ["EqSystem.root/solve numerical results", "solve_equilibrium (brentq)", "19-of-20 success rate"],
    "trusted_base": ["z3 5.1", "vlib/zsym.py"],
}


def build(eq_strs, Ksyms=True):
    from chempy import Equilibrium, Species
    from chempy.equilibria import EqSystem

    eqs = [Equilibrium.from_string(s) for s in eq_strs]
    keys = []
    for e in eqs:
        for k in itertools.chain(e.reac, e.prod):
            if k not in keys:
                keys.append(k)
    subs = [Species.from_formula(k) for k in keys]
    Ks = [Real("K%d" % i) for i in range(len(eqs))]
    for e, K in zip(eqs, Ks):
        e.param = K
    return EqSystem(eqs, subs), Ks, keys


REPLAY_SANE = '''
import warnings, itertools
from chempy import Equilibrium, Species
from chempy.equilibria import EqSystem
eq_strs = %(eqs)r
c0 = %(c0)s
x = %(x)s
eqs = [Equilibrium.from_string(s + "; 1") for s in eq_strs]
keys = []
for e in eqs:
    for k in itertools.chain(e.reac, e.prod):
        if k not in keys: keys.append(k)
es = EqSystem(eqs, [Species.from_formula(k) for k in keys])
import numpy as np
with warnings.catch_warnings():
    warnings.simplefilter("ignore")
    real_ub = es.upper_conc_bounds
    es.upper_conc_bounds = lambda ic, **kw: real_ub(ic, dtype=object, **kw)   # stub stated in the obligation: exact arithmetic
    got = es._result_is_sane(np.array([c0[k] for k in keys], dtype=object), np.array([x[k] for k in keys], dtype=object))
tot = {}
for k in keys:
    for e, n in es.substances[k].composition.items():
        if e != 0: tot[e] = tot.get(e, 0) + n * c0[k]
exp = True
for k in keys:
    cand = [tot[e] / n for e, n in es.substances[k].composition.items() if e != 0]
    if x[k] < 0 or (cand and x[k] > min(cand) * Fraction(1 + 1e-9)): exp = False
print("x", x, "c0", c0, "sane:", got, "expected:", exp)
sys.exit(0 if bool(got) == exp else 1)
'''


def task_sane(systems, deadline=300):
    from chempy.equilibria import EqSystem

    res = dict(engine="Z", functions=[env.describe(EqSystem._result_is_sane)], obligations=0, discharged=0, violations=[], inconclusive=[],
               queries=0, paths=0, solver_s=0.0, bounds="%d systems, x any reals, c0 >= 0" % len(systems))
    tw = None
    for eq_strs in systems:
        es, Ks, keys = build(eq_strs)
        n = len(keys)
        x = [Real("x%d" % i) for i in range(n)]
        c0 = [Real("c0_%d" % i) for i in range(n)]
        assum = [v.t >= 0 for v in c0]
        real_ub = es.upper_conc_bounds
        es.upper_conc_bounds = lambda ic, **kw: real_ub(ic, dtype=object, **kw)
        comps = [{e: a for e, a in es.substances[k].composition.items() if e != 0} for k in keys]
        elems = sorted(set().union(*[set(d) for d in comps]))
        tot = {e: sum(comps[i].get(e, 0) * c0[i] for i in range(n) if e in comps[i]) for e in elems}

        def fn():
            with warnings.catch_warnings():
                warnings.simplefilter("ignore")
                return es._result_is_sane(np.array(c0, dtype=object), np.array(x, dtype=object))

        def goal(p, twin=False):
            if p.kind == "exc":
                return False
            conds = []
            for i in range(n):
                conds.append(x[i].t >= (0 if not twin else 1))
                for e, a in comps[i].items():
                    conds.append(x[i].t <= lift(tot[e] / a) * _q(1 + 1e-9))
            spec = z3.And(*conds)
            return spec if bool(p.value) else z3.Not(spec)

        o = explore_and_prove(fn, assum, goal, max_paths=400000, deadline_s=deadline)
        res["obligations"] += o.obligations
        res["discharged"] += o.discharged
        res["queries"] += o.queries
        res["paths"] += o.paths
        res["solver_s"] += o.solver_s
        res["inconclusive"] += o.inconclusive
        for p, m, g in o.failed[:1]:
            res["violations"].append(dict(key="sane:%s" % p.kind, soft=wrapper_exc(p.value),
                                          desc="%s x=%s c0=%s -> %r" % (eq_strs, concretize(m, x), concretize(m, c0), p.value),
                                          replay_src=REPLAY_SANE % dict(eqs=eq_strs, c0=pyrepr(dict(zip(keys, concretize(m, c0)))),
                                                                        x=pyrepr(dict(zip(keys, concretize(m, x)))))))
        if tw is None:
            ot = explore_and_prove(fn, assum, lambda p: goal(p, True), max_paths=60000, deadline_s=60, max_fail=1)
            tw = twin_verdict(ot)
    res["twin"] = tw
    res["sample"] = {"system": systems[0], "x": "symbolic reals", "c0": "symbolic >= 0"}
    res["status"] = "violation" if res["violations"] else ("inconclusive" if res["inconclusive"] else "discharged")
    return res


REPLAY_PRECIP = '''
import itertools
import numpy as np
from chempy import Equilibrium, Species
from chempy.equilibria import EqSystem
from chempy._eqsys import NumSysLin, NumSysLog
eq_strs = %(eqs)r
x = %(x)s
Kv = %(K)s
eqs = [Equilibrium.from_string(s) for s in eq_strs]
for e, k in zip(eqs, Kv): e.param = k
keys = []
for e in eqs:
    for k in itertools.chain(e.reac, e.prod):
        if k not in keys: keys.append(k)
es = EqSystem(eqs, [Species.from_formula(k) for k in keys])
xv = np.array([x[k] for k in keys], dtype=object)
oth = ["AgCl(s) = Ag+ + Cl-"] if "NaCl(s)" in eq_strs[0] else ["Na+ + Cl- = NaCl(s)"]
oe = [Equilibrium.from_string(s_ + "; 1") for s_ in oth]
ok_ = []
for e in oe:
    for k in itertools.chain(e.reac, e.prod):
        if k not in ok_: ok_.append(k)
EqSystem(oe, [Species.from_formula(k) for k in ok_]).dissolved(np.array([Fraction(1), Fraction(2), Fraction(3)], dtype=object))   # history
d = es.dissolved(xv)
B, ck = es.composition_balance_vectors()
bad = []
ri = es.phase_transfer_reaction_idxs()[0]
rxn = es.rxns[ri]
solid = [k for k in keys if es.substances[k].phase_idx > 0][0]
si = keys.index(solid)
if d[si] != 0: bad.append("dissolved() leaves %%s of the solid" %% d[si])
for row, k in zip(B, ck):
    if sum(b * v for b, v in zip(row, d)) != sum(b * v for b, v in zip(row, xv)): bad.append("dissolved() changes the total of key %%s" %% k)
net = rxn.net_stoich(keys)
ion = 1
defined = all(not (nu < 0 and d[keys.index(k_)] == 0) for k_, nu in zip(keys, net) if k_ != solid)
for k_, nu in zip(keys, net):
    if k_ != solid and defined: ion = ion * d[keys.index(k_)] ** nu
pv = np.array(list(%(p0)s) + list(Kv), dtype=object)   # initial concentrations (different from x), constants
fw = es._fw_cond_factory(ri)(xv, pv)
expect = (ion > Kv[ri] * Fraction(1 + 1e-14)) if net[si] < 0 else (ion * Fraction(1 + 1e-14) < Kv[ri])
if defined and bool(fw) != bool(expect): bad.append("fw_cond = %%s but quotient of the dissolved state %%s vs K %%s" %% (fw, ion, Kv[ri]))
for NS in (NumSysLin, NumSysLog):
    bw = es._bw_cond_factory(ri, NS.small)(xv, pv)
    if bool(bw) != (not (xv[si] < NS.small)): bad.append("bw_cond(%%s) = %%s for solid amount %%s" %% (NS.__name__, bw, xv[si]))
for b in bad: print("MISMATCH", b)
sys.exit(1 if bad else 0)
'''


def task_precip(systems):
    from chempy.equilibria import EqSystem
    from chempy._eqsys import NumSysLin, NumSysLog

    res = dict(engine="Z", functions=[env.describe(EqSystem.dissolved), env.describe(EqSystem._fw_cond_factory), env.describe(EqSystem._bw_cond_factory)],
               obligations=0, discharged=0, violations=[], inconclusive=[], queries=0, paths=0, solver_s=0.0,
               bounds="%d precipitation systems (both orientations), all x >= 0, K > 0" % len(systems))
    tw = None
    for eq_strs in systems:
        es, Ks, keys = build(eq_strs)
        n = len(keys)
        x = [Real("x%d" % i) for i in range(n)]
        assum = [v.t >= 0 for v in x] + [k.t > 0 for k in Ks] + [z3.Real("p0_%d" % i) >= 0 for i in range(n)]
        ri = es.phase_transfer_reaction_idxs()[0]
        rxn = es.rxns[ri]
        solid = [k for k in keys if es.substances[k].phase_idx > 0][0]
        si = keys.index(solid)
        net = rxn.net_stoich(keys)
        B, ck = es.composition_balance_vectors()

        pvec = [Real("p0_%d" % i) for i in range(n)] + list(Ks)  # the solver's parameter vector: initial concentrations, constants

        other = build(["AgCl(s) = Ag+ + Cl-"] if "NaCl(s)" in eq_strs[0] else ["Na+ + Cl- = NaCl(s)"])[0]

        def fn():
            xv = np.array(x, dtype=object)
            pv = np.array(pvec, dtype=object)
            # history: another precipitation system (other species order) was handled before in the same process
            other.dissolved(np.array([Fraction(1), Fraction(2), Fraction(3)], dtype=object))
            d = es.dissolved(xv)
            fw = bool(es._fw_cond_factory(ri)(xv, pv))
            bw0 = bool(es._bw_cond_factory(ri, NumSysLin.small)(xv, pv))
            bw1 = bool(es._bw_cond_factory(ri, NumSysLog.small)(xv, pv))
            return d, fw, bw0, bw1

        def goal(p, twin=False):
            if p.kind == "exc":
                return False
            d, fw, bw0, bw1 = p.value
            conds = [eq_term(d[si], 0)]
            # oracle dissolved state: move the solid completely along the reaction
            od = [x[j] - x[si] / net[si] * net[j] for j in range(n)]
            for j in range(n):
                conds.append(eq_term(d[j], od[j]))
            for row in B:
                conds.append(eq_term(sum(b * v for b, v in zip(row, d)), sum(b * v for b, v in zip(row, x))))
            num, den = 1, 1
            for j, nu in enumerate(net):
                if j == si:
                    continue
                if nu > 0:
                    num = num * od[j] ** nu
                elif nu < 0:
                    den = den * od[j] ** (-nu)
            rt = Fraction(1 + 1e-14)  # the float the code computes
            K = Ks[ri]
            if net[si] < 0:  # solid is a reactant: ion product of the dissolved state exceeds Ksp
                e = lift(num) > lift(K * rt * den)
            else:
                e = lift(num * rt) < lift(K * den)
            if twin:
                e = z3.Not(e)
            # division by den: den > 0 needed for the cross-multiplied form
            pos = z3.And(*[lift(od[j]) > 0 for j in range(n) if j != si and net[j] < 0]) if any(net[j] < 0 for j in range(n) if j != si) else z3.BoolVal(True)
            conds.append(z3.Implies(pos, e if fw else z3.Not(e)))
            conds.append((x[si].t >= 0) if bw0 else (x[si].t < 0))
            small = _q(NumSysLog.small)
            conds.append((x[si].t >= small) if bw1 else (x[si].t < small))
            return z3.And(*conds)

        o = explore_and_prove(fn, assum, goal, max_paths=5000, deadline_s=200)
        res["obligations"] += o.obligations
        res["discharged"] += o.discharged
        res["queries"] += o.queries
        res["paths"] += o.paths
        res["solver_s"] += o.solver_s
        res["inconclusive"] += o.inconclusive
        for p, m, g in o.failed[:1]:
            res["violations"].append(dict(key="precip:%s" % p.kind, soft=wrapper_exc(p.value),
                                          desc="%s x=%s K=%s -> %r" % (eq_strs, concretize(m, x), concretize(m, Ks), p.value),
                                          replay_src=REPLAY_PRECIP % dict(eqs=eq_strs, x=pyrepr(dict(zip(keys, concretize(m, x)))),
                                                                          K=pyrepr(concretize(m, Ks)), p0=pyrepr(concretize(m, pvec[:n])))))
        if tw is None:
            ot = explore_and_prove(fn, assum, lambda p: goal(p, True), max_paths=5000, deadline_s=60, max_fail=1)
            tw = twin_verdict(ot)
    res["twin"] = tw
    res["sample"] = {"system": systems[0], "x": "symbolic >= 0", "K": "symbolic > 0"}
    res["status"] = "violation" if res["violations"] else ("inconclusive" if res["inconclusive"] else "discharged")
    return res


REPLAY_CONDSEL = """
import itertools
from fractions import Fraction
import numpy as np
from chempy import Equilibrium, Species
from chempy.equilibria import EqSystem
from chempy._eqsys import NumSysLin, NumSysLog
eq_strs = %(eqs)r
x = %(x)s
Kv = %(K)s
p0 = %(p0)s
eqs = [Equilibrium.from_string(s) for s in eq_strs]
for e, k in zip(eqs, Kv): e.param = k
keys = []
for e in eqs:
    for k in itertools.chain(e.reac, e.prod):
        if k not in keys: keys.append(k)
es = EqSystem(eqs, [Species.from_formula(k) for k in keys])
xv = np.array([x[k] for k in keys], dtype=object)
pv = np.array(list(p0) + list(Kv), dtype=object)
ptr = es.phase_transfer_reaction_idxs()
bad = []
systems = [("get_neqsys_conditional_chained", es.get_neqsys_conditional_chained(NumSys=(NumSysLin, NumSysLog)), NumSysLin)]
ch = es.get_neqsys_chained_conditional(NumSys=(NumSysLin, NumSysLog))
systems += [("get_neqsys_chained_conditional[%%d]" %% i, s_, NS) for i, (s_, NS) in enumerate(zip(ch.neqsystems, (NumSysLin, NumSysLog)))]
for name, cs, NS in systems:
    fws = cs.get_conds(xv, pv, [False] * len(ptr))
    bws = cs.get_conds(xv, pv, [True] * len(ptr))
    for i, ri in enumerate(ptr):
        solid = [k for k in keys if es.substances[k].phase_idx > 0 and k in es.rxns[ri].keys()][0]
        exp_bw = not (x[solid] < NS.small)
        if bool(bws[i]) != exp_bw: bad.append("%%s: backward condition %%d is %%s for %%s = %%s" %% (name, i, bws[i], solid, x[solid]))
        exp_fw = bool(es._fw_cond_factory(ri)(xv, pv))
        if bool(fws[i]) != exp_fw: bad.append("%%s: forward condition %%d is %%s but the condition of phase-transfer reaction %%d (%%s) is %%s" %% (name, i, fws[i], ri, eq_strs[ri], exp_fw))
for b in bad[:6]: print("MISMATCH", b)
sys.exit(1 if bad else 0)
"""


def task_condsel(systems):
    """The switching conditions INSTALLED in the conditional solver objects (pyneqsys.ConditionalNeqSys.get_conds, both builders) are, position
    by position, the conditions of the system's phase-transfer reactions - systems with two sparingly soluble phases."""
    from chempy.equilibria import EqSystem
    from chempy._eqsys import NumSysLin, NumSysLog

    res = dict(engine="Z", functions=[env.describe(EqSystem.get_neqsys_conditional_chained), env.describe(EqSystem.get_neqsys_chained_conditional),
                                      env.describe(EqSystem._fw_cond_factory), env.describe(EqSystem._bw_cond_factory)],
               obligations=0, discharged=0, violations=[], inconclusive=[], queries=0, paths=0, solver_s=0.0,
               bounds="%d systems with 2 solid phases; all x >= 0, K > 0; both builders, NumSys=(NumSysLin, NumSysLog)" % len(systems))
    tw = None
    for eq_strs in systems:
        es, Ks, keys = build(eq_strs)
        n = len(keys)
        x = [Real("x%d" % i) for i in range(n)]
        pvec = [Real("p0_%d" % i) for i in range(n)] + list(Ks)
        assum = [v.t >= 0 for v in x] + [k.t > 0 for k in Ks] + [v.t >= 0 for v in pvec[:n]]
        ptr = es.phase_transfer_reaction_idxs()
        sidx = []
        for ri in ptr:
            sidx.append([keys.index(k) for k in keys if es.substances[k].phase_idx > 0 and k in es.rxns[ri].keys()][0])
        cc = es.get_neqsys_conditional_chained(NumSys=(NumSysLin, NumSysLog))
        ch = es.get_neqsys_chained_conditional(NumSys=(NumSysLin, NumSysLog))
        objs = [(cc, NumSysLin)] + list(zip(ch.neqsystems, (NumSysLin, NumSysLog)))

        def fn():
            xv = np.array(x, dtype=object)
            pv = np.array(pvec, dtype=object)
            out = []
            for cs, NS in objs:
                fws = [bool(b) for b in cs.get_conds(xv, pv, [False] * len(ptr))]
                bws = [bool(b) for b in cs.get_conds(xv, pv, [True] * len(ptr))]
                out.append((fws, bws))
            direct = [bool(es._fw_cond_factory(ri)(xv, pv)) for ri in ptr]
            return out, direct

        def goal(p, twin=False):
            if p.kind == "exc":
                return False
            out, direct = p.value
            conds = []
            for (fws, bws), (cs, NS) in zip(out, objs):
                small = _q(NS.small)
                for i in range(len(ptr)):
                    conds.append(z3.BoolVal(fws[i] == direct[i]))
                    e = x[sidx[i]].t >= small
                    conds.append(e if bws[i] else z3.Not(e))
            g = z3.And(*conds)
            return z3.Not(g) if twin else g

        o = explore_and_prove(fn, assum, goal, max_paths=20000, deadline_s=300)
        res["obligations"] += o.obligations
        res["discharged"] += o.discharged
        res["queries"] += o.queries
        res["paths"] += o.paths
        res["solver_s"] += o.solver_s
        res["inconclusive"] += o.inconclusive
        for p, m, g in o.failed[:1]:
            res["violations"].append(dict(key="condsel:%s" % p.kind, soft=wrapper_exc(p.value),
                                          desc="%s x=%s K=%s -> %r" % (eq_strs, concretize(m, x), concretize(m, Ks), p.value),
                                          replay_src=REPLAY_CONDSEL % dict(eqs=eq_strs, x=pyrepr(dict(zip(keys, concretize(m, x)))),
                                                                           K=pyrepr(concretize(m, Ks)), p0=pyrepr(concretize(m, pvec[:n])))))
        if tw is None:
            ot = explore_and_prove(fn, assum, lambda p: goal(p, True), max_paths=20000, deadline_s=60, max_fail=1)
            tw = twin_verdict(ot)
    res["twin"] = tw
    res["sample"] = {"system": systems[0], "x": "symbolic >= 0", "K": "symbolic > 0"}
    res["status"] = "violation" if res["violations"] else ("inconclusive" if res["inconclusive"] else "discharged")
    return res


REPLAY_POST = '''
import itertools, math
import numpy as np
from chempy import Equilibrium, Species
from chempy.equilibria import EqSystem
import chempy._eqsys as ES
eq_strs = %(eqs)r
cls = %(cls)r
ys = [%(y)s, [-40.0 + 3 * j for j in range(%(n)d)], [0.25 + 0.5 * j for j in range(%(n)d)]]
c0 = %(c0)s
eqs = [Equilibrium.from_string(s + "; 1") for s in eq_strs]
keys = []
for e in eqs:
    for k in itertools.chain(e.reac, e.prod):
        if k not in keys: keys.append(k)
es = EqSystem(eqs, [Species.from_formula(k) for k in keys])
inst = getattr(ES, cls)(es)
params = np.array([float(v) for v in c0] + [1.0] * len(eqs))
bad = []
for y in ys:
    yv = np.array([float(v) for v in y])
    if inst.post_processor is None:
        got, pr = yv, params
    else:
        got, pr = inst.post_processor(yv, params)
    if cls == "NumSysSquare": exp = [v * v for v in yv]
    elif cls == "NumSysLog": exp = [math.exp(v) for v in yv]
    elif cls == "NumSysLin": exp = list(yv)
    else:
        exp = []
        for j, k in enumerate(keys):
            cand = []
            for el, a in es.substances[k].composition.items():
                if el == 0: continue
                cand.append(sum(es.substances[k2].composition.get(el, 0) * params[i] for i, k2 in enumerate(keys)) / a)
            exp.append(min(cand) * yv[j])
    for j in range(len(keys)):
        if abs(got[j] - exp[j]) > 1e-12 * abs(exp[j]): bad.append("y=%%s: concentration %%d reported as %%r, the residuals were formulated for %%r" %% (list(yv), j, got[j], exp[j]))
    if list(pr) != list(params): bad.append("post_processor changed the parameter vector")
for b in bad[:5]: print("MISMATCH", b)
sys.exit(1 if bad else 0)
'''


def task_post(systems):
    """the concentrations REPORTED for a root y of formulation X are post_processor(y): they must be the c = g(y) under which C07 proves
    f_X(y) == f_Lin(c) (g = y^2 / exp(y) / max_conc(c0)*y / y), otherwise the reported state is not the one whose residuals vanish"""
    import chempy._eqsys as ES
    from vlib.zrun import uf_prover
    from vlib.zsym import ZBackend

    be = ZBackend()
    res = dict(engine="Z", functions=[env.describe(getattr(ES, c).post_processor) for c in ("NumSysLinRel", "NumSysSquare", "NumSysLog")],
               obligations=0, discharged=0, violations=[], inconclusive=[], queries=0, paths=0, solver_s=0.0,
               bounds="%d systems x 4 formulations, all real y, c0 > 0" % len(systems))
    tw = None
    for eq_strs in systems:
        es, Ks, keys = build(eq_strs)
        n = len(keys)
        y = [Real("y%d" % i) for i in range(n)]
        c0 = [Real("c0_%d" % i) for i in range(n)]
        assum = [v.t > 0 for v in c0] + [k.t > 0 for k in Ks]
        params = np.array(c0 + list(Ks), dtype=object)
        comps = [{e: a for e, a in es.substances[k].composition.items() if e != 0} for k in keys]
        elems = sorted(set().union(*[set(d) for d in comps]))
        tot = {e: sum(comps[i].get(e, 0) * c0[i] for i in range(n) if e in comps[i]) for e in elems}
        for cls in ("NumSysLin", "NumSysLinRel", "NumSysSquare", "NumSysLog"):
            inst = getattr(ES, cls)(es)
            if cls == "NumSysLinRel":
                real_mc = inst.max_concs
                inst.max_concs = lambda prm, min_=min, dtype=object: real_mc(prm, min_=min_, dtype=object)  # stub: exact dtype

            def fn():
                if inst.post_processor is None:
                    return np.array(y, dtype=object), params
                return inst.post_processor(np.array(y, dtype=object), params)

            def goal(p, twin=False):
                if p.kind == "exc":
                    return False
                got, pr = p.value
                if len(got) != n or len(pr) != len(params):
                    return False
                conds = [eq_term(a, b) for a, b in zip(pr, params)]
                for j in range(n):
                    if cls == "NumSysSquare":
                        exp = y[j] * y[j]
                    elif cls == "NumSysLog":
                        exp = be.exp(y[j])
                    elif cls == "NumSysLin":
                        exp = y[j]
                    else:
                        cand = [lift(tot[e] / a) for e, a in comps[j].items()]
                        mn = cand[0]
                        for c_ in cand[1:]:
                            mn = z3.If(c_ < mn, c_, mn)
                        exp = SymNum(mn) * y[j]
                    if twin:
                        exp = exp + 1
                    conds.append(eq_term(got[j], exp))
                return z3.And(*conds)

            o = explore_and_prove(fn, assum, goal, max_paths=5000, deadline_s=120, prover=uf_prover)
            res["obligations"] += o.obligations
            res["discharged"] += o.discharged
            res["queries"] += o.queries
            res["paths"] += o.paths
            res["solver_s"] += o.solver_s
            res["inconclusive"] += o.inconclusive
            for p, m, g in o.failed[:1]:
                yv = [float(v) for v in concretize(m, y)] if m is not None else [0.5] * n
                cv = [float(v) for v in concretize(m, c0)] if m is not None else [1.0] * n
                res["violations"].append(dict(key="post:%s:%s" % (cls, p.kind), soft=True,
                                              desc="%s %s.post_processor(y=%s, c0=%s) -> %r" % (eq_strs, cls, yv, cv, p.value),
                                              replay_src=REPLAY_POST % dict(eqs=eq_strs, cls=cls, y=repr(yv), c0=repr(cv), n=n)))
            if tw is None and cls == "NumSysSquare":
                ot = explore_and_prove(fn, assum, lambda p: goal(p, True), max_paths=5000, deadline_s=60, max_fail=1, prover=uf_prover)
                tw = twin_verdict(ot)
    res["twin"] = tw
    res["sample"] = {"system": systems[0], "y": "symbolic reals", "c0": "symbolic > 0", "classes": ["NumSysLin", "NumSysLinRel", "NumSysSquare", "NumSysLog"]}
    res["status"] = "violation" if res["violations"] else ("inconclusive" if res["inconclusive"] else "discharged")
    return res


def tasks(tier, seed):
    maxn = 5 if tier == "quick" else 7
    hom = [s for s in gen.eq_systems(tier, seed) if len(build(s)[2]) <= maxn][: (8 if tier == "quick" else 30)]
    pre = gen.eq_systems(tier, seed, precip=True)
    pre = pre + [["Na+ + Cl- = NaCl(s)"], ["Ag+ + Cl- = AgCl(s)", "H2O = H+ + OH-"]]
    ts = []
    n = 8
    allsys = hom + [s for s in pre if len(build(s)[2]) <= maxn]
    for i in range(n):
        ch = allsys[i::n]
        if ch:
            ts.append(dict(id="C08.sane.%02d" % i, fn="task_sane", kwargs=dict(systems=ch, deadline=300 if tier == "quick" else 2400),
                           timeout=2400 if tier == "quick" else 20000))
    for i in range(4):
        ch = pre[i::4]
        if ch:
            ts.append(dict(id="C08.precip.%02d" % i, fn="task_precip", kwargs=dict(systems=ch), timeout=1200))
    for i in range(2):
        ch = hom[i::2]
        if ch:
            ts.append(dict(id="C08.post.%02d" % i, fn="task_post", kwargs=dict(systems=ch), timeout=1200))
    # (two dissolution-oriented solids sharing an ion - ["AgCl(s) = Ag+ + Cl-", "NaCl(s) = Na+ + Cl-"] - did not finish in 300 s: nonlinear
    #  quotients of two coupled dissolved states; not registered)
    multi = [["Ag+ + Br- = AgBr(s)", "Ag+ + Cl- = AgCl(s)"],
             ["AgCl(s) = Ag+ + Cl-", "H2O = H+ + OH-", "Ag+ + Br- = AgBr(s)"]]
    # (a three-solid system - AgCl(s), AgBr(s), NaCl(s) - did not finish in 400 s either; the thorough tier uses the same systems)
    for i, s_ in enumerate(multi):
        ts.append(dict(id="C08.condsel.%02d" % i, fn="task_condsel", kwargs=dict(systems=[s_]), timeout=1200))
    return ts
