"""C02 - (claimed part) the per-component presence pre-check of balance_stoichiometry never refuses a balanceable placement.

Engine Z executes the real function up to the construction of the sympy matrix (sympy.MutableDenseMatrix replaced by a sentinel)
with symbolic compositions.  For every path that ends in the pre-check's ValueError, z3 shows that no positive coefficient vector
balances the species as placed.  Everything after the matrix construction (sympy.linsolve, gcd normalisation, PuLP/CBC integer
program, duplicate search) cannot be executed symbolically and is NOT claimed.
"""
import itertools
import time

import z3

from vlib import env
from vlib.zrun import twin_verdict, wrapper_exc, explore_and_prove, eq_term, concretize, pyrepr
from vlib.zsym import Real, SymNum, SymTypeError, lift, model_value

META = {
    "level": "other",
    "explanation": "bounded symbolic verification (Engine Z) of the pre-check only: balance_stoichiometry runs on substances whose composition "
                   "entries are symbolic; on every path ending in 'Component ... not among reactants/products' z3 proves that "
                   "A*x = 0 has no solution with all x >= 1 (so refusing is justified: 'when no assignment of positive coefficients balances "
                   "the species as placed, a ValueError is raised' is never triggered wrongly by this mechanism); on every path that reaches "
                   "the solver, the matrix handed to it is proved to be the FULL signed composition matrix (one row per element and one for the "
                   "net charge, reactant columns negated) - the precondition for 'every composition key sums to the same total on both sides'",
    "bounds": {"quick": "r reactants x p products x c composition keys with r+p <= 4, c <= 3 (charge + 2 elements); element counts in [0,3], "
                        "charge in [-2,2] (real-valued superset)",
               "thorough": "r+p <= 6 (c = 2) / r+p <= 5 (c = 3)"},
    "assumptions": [
        "every composition key has a non-zero entry in at least one species (the parser never produces all-zero keys)",
        "stub: sympy.MutableDenseMatrix raises a sentinel - the code after the pre-check (linsolve, Wild/gcd normalisation, PuLP/CBC, "
        "status never inspected, duplicate elimination) is outside: sympy canonicalises/hashes its arguments and CBC is a subprocess, "
        "nothing symbolic survives; in particular 'C + CO -> CO2' returning -1 on the pinned tree is invisible to this technique",
    ],
    "outside": ["balanced/positive/coprime result", "minimal coefficient sum", "duplicate handling", "wrong-side placements that pass the pre-check"],
    "trusted_base": ["z3 5.1", "vlib/zsym.py"],
}


class Reached(Exception):
    def __init__(self, rows=None):
        Exception.__init__(self, "matrix construction reached")
        self.rows = rows


REPLAY = '''
from chempy import Substance, balance_stoichiometry
comps = %(comps)s
nr = %(nr)d
xs = %(xs)s
names = ["S%%d" %% i for i in range(len(comps))]
subs = {n: Substance(n, composition={k: v for k, v in c.items()}) for n, c in zip(names, comps)}
reac, prod = (list(reversed(names[:nr])), tuple(reversed(names[nr:]))) if %(aslist)r else (set(names[:nr]), set(names[nr:]))
keys = sorted(set().union(*[set(c) for c in comps]))
res = [sum((-1 if i < nr else 1) * comps[i].get(k, 0) * xs[i] for i in range(len(comps))) for k in keys]
feasible = all(r == 0 for r in res) and all(x > 0 for x in xs)
try:
    out = balance_stoichiometry(reac, prod, substances=subs, underdetermined=True, **%(kw)s)
    refused = None
except ValueError as e:
    refused = str(e)
print("positive balancing vector", xs, "residuals", res, "refused:", refused)
sys.exit(1 if (feasible and refused and "not among" in refused) else 0)
'''


REPLAY_MATRIX = '''
import sympy
from chempy import Substance, balance_stoichiometry
comps = %(comps)s
nr = %(nr)d
names = ["S%%d" %% i for i in range(len(comps))]
subs = {n: Substance(n, composition={k: v for k, v in c.items()}) for n, c in zip(names, comps)}
keys = sorted(set().union(*[set(c) for c in comps]))
seen = []
real = sympy.MutableDenseMatrix
class Spy(real):
    def __new__(cls, *a, **k):
        if not seen: seen.append([list(row) for row in a[0]])
        return real.__new__(real, *a, **k)
sympy.MutableDenseMatrix = Spy
try:
    if %(aslist)r:
        balance_stoichiometry(list(reversed(names[:nr])), tuple(reversed(names[nr:])), substances=subs, underdetermined=True)
    else:
        balance_stoichiometry(set(names[:nr]), set(names[nr:]), substances=subs, underdetermined=True, **%(kw)s)
except Exception as e:
    print("raised", repr(e)); seen.append("raised")
finally:
    sympy.MutableDenseMatrix = real
order = (list(reversed(range(nr))) + list(reversed(range(nr, len(comps))))) if %(aslist)r else list(range(len(comps)))
exp = [[(-1 if i < nr else 1) * comps[i].get(k, 0) for i in order] for k in keys]
print("matrix", seen[0] if seen else None, "expected", exp)
sys.exit(1 if (seen and seen[0] != exp) else 0)   # an exception before the matrix is built is a refusal of a placement that reaches the solver otherwise
'''


def task_shape(r, p, c, dup=False, aslist=False):
    import sympy
    from chempy import Substance, balance_stoichiometry

    keys = [0, 1, 8][:c] if c == 3 else [0, 1][:c]
    n = r + p
    comps = []
    assum = []
    for i in range(n):
        d = {}
        for k in keys:
            v = Real("c%d_%d" % (i, k))
            assum += ([v.t >= -2, v.t <= 2] if k == 0 else [v.t >= 0, v.t <= 3])
            d[k] = v
        comps.append(d)
    for k in keys:
        assum.append(z3.Or(*[comps[i][k].t != 0 for i in range(n)]))
    names = ["S%d" % i for i in range(n)]
    xs = [Real("x%d" % i) for i in range(n)]

    def fn():
        subs = {nm: Substance(nm, composition=dict(cc)) for nm, cc in zip(names, comps)}
        old = sympy.MutableDenseMatrix

        class Sentinel(object):
            def __init__(self, *a, **k):
                raise Reached(a[0] if a else None)

        sympy.MutableDenseMatrix = Sentinel
        try:
            if aslist:
                # reactants / products as LISTS in reversed order: the order given is kept (only sets are sorted)
                return balance_stoichiometry(list(reversed(names[:r])), tuple(reversed(names[r:])), substances=subs, underdetermined=True)
            return balance_stoichiometry(set(names[:r]), set(names[r:]), substances=subs, underdetermined=True, **({"allow_duplicates": True} if dup else {}))
        finally:
            sympy.MutableDenseMatrix = old

    def goal(p_, twin=False):
        if p_.kind == "exc" and isinstance(p_.value, Reached):
            # the linear system handed to the solver is the FULL signed composition matrix: one row per composition key (every element
            # and the net charge), reactant columns negated, columns in the order reactants (sorted) then products (sorted)
            rows = p_.value.rows
            if twin:
                return None
            if rows is None or len(rows) != len(keys) or any(len(row) != n for row in rows):
                return False
            order = (list(reversed(range(r))) + list(reversed(range(r, n)))) if aslist else list(range(n))
            return z3.And(*[eq_term(rows[ki][col], (-1 if i < r else 1) * comps[i][k]) for ki, k in enumerate(sorted(keys)) for col, i in enumerate(order)])
        if p_.kind == "exc" and not isinstance(p_.value, (Reached, ValueError)) and not wrapper_exc(p_.value):
            return False  # e.g. NotImplementedError: the species are disjoint, nothing about duplicates applies
        if p_.kind == "exc" and isinstance(p_.value, ValueError) and "not among" in str(p_.value):
            if twin:
                return False
            feas = [x.t >= 1 for x in xs]
            for k in keys:
                feas.append(z3.Sum([(-1 if i < r else 1) * comps[i][k].t * xs[i].t for i in range(n)]) == 0)
            return z3.Not(z3.And(*feas))
        return False

    o = explore_and_prove(fn, assum, goal, max_paths=60000, deadline_s=400, timeout_ms=30000)
    ot = explore_and_prove(fn, assum, lambda q: goal(q, True), max_paths=60000, deadline_s=60, max_fail=1)
    res = dict(engine="Z", functions=[env.describe(balance_stoichiometry)], obligations=o.obligations, discharged=o.discharged, violations=[],
               inconclusive=list(o.inconclusive), queries=o.queries, paths=o.paths, solver_s=o.solver_s, twin=twin_verdict(ot),
               bounds="%d reactants x %d products x keys %s" % (r, p, keys),
               sample={"reactants": r, "products": p, "keys": keys, "compositions": "symbolic"})
    for pth, m, g in o.failed[:1]:
        cc = [concretize(m, d) for d in comps]
        xv = concretize(m, xs)
        if isinstance(pth.value, Reached):
            res["violations"].append(dict(key="matrix", desc="compositions %s (first %d are reactants): matrix handed to the solver is %s" % (cc, r, pth.value.rows),
                                          replay_src=REPLAY_MATRIX % dict(comps=pyrepr(cc), nr=r, kw=repr({"allow_duplicates": True} if dup else {}), aslist=aslist)))
            continue
        if wrapper_exc(pth.value):
            # the code left the symbolic domain before the matrix was handed over (e.g. it stores the entries in a typed array): the
            # matrix obligation is decided at a concrete NON-INTEGER witness instead (soft: reported only if the replay reproduces)
            from fractions import Fraction as _F
            if all(_F(v).denominator == 1 for d in cc for v in d.values()):
                cc = [{k: (_F(v) + _F(1, 2) if _F(v) != 0 else v) for k, v in d.items()} for d in cc]
            res["violations"].append(dict(key="matrix:wrapper", soft=True,
                                          desc="compositions %s (first %d are reactants): %r before the matrix was handed to the solver" % (cc, r, pth.value),
                                          replay_src=REPLAY_MATRIX % dict(comps=pyrepr(cc), nr=r, kw=repr({"allow_duplicates": True} if dup else {}), aslist=aslist)))
            continue
        res["violations"].append(dict(key="precheck:%s" % pth.kind, soft=False,
                                      desc="compositions %s (first %d are reactants): %r although x=%s balances" % (cc, r, pth.value, xv),
                                      replay_src=REPLAY % dict(comps=pyrepr(cc), nr=r, xs=pyrepr(xv), kw=repr({"allow_duplicates": True} if dup else {}), aslist=aslist)))
    res["status"] = "violation" if res["violations"] else ("inconclusive" if res["inconclusive"] else "discharged")
    return res


def tasks(tier, seed):
    shapes = [(1, 1, 2), (1, 2, 2), (2, 1, 2), (2, 2, 2), (1, 2, 3), (2, 1, 3), (1, 3, 2), (3, 1, 2), (2, 2, 3)]
    if tier == "thorough":
        shapes += [(1, 3, 3), (3, 1, 3), (2, 3, 2), (3, 2, 2), (2, 3, 3), (3, 2, 3), (1, 4, 2), (4, 1, 2), (3, 3, 2)]
    ts = [dict(id="C02.precheck.r%dp%dc%d" % s, fn="task_shape", kwargs=dict(r=s[0], p=s[1], c=s[2]), timeout=1800) for s in shapes]
    # the same obligations with duplicate handling switched on (species are disjoint: nothing may change)
    ts += [dict(id="C02.precheck.dup.r%dp%dc%d" % s, fn="task_shape", kwargs=dict(r=s[0], p=s[1], c=s[2], dup=True), timeout=1800) for s in shapes[:3]]
    # reactants / products given as list / tuple (order kept) instead of sets (sorted)
    ts += [dict(id="C02.precheck.aslist.r%dp%dc%d" % s, fn="task_shape", kwargs=dict(r=s[0], p=s[1], c=s[2], aslist=True), timeout=1800) for s in shapes[3:6]]
    return ts
