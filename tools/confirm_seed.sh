#!/bin/bash
# usage: tools/confirm_seed.sh <PROP> <A|B>   -- independently confirm a sub-agent's seeded change in its scratch worktree
# (apply; full test-suite must show only the 6 baseline failures; demo must fail; revert; demo must pass), then file it
# under /verif/seeded/<PROP>_<X>/ (patch.diff, demo.py, notes.md, meta.json).
set -u
ID="$1"; X="$2"; SUF="${3:-}"; NAME="${4:-$X}"; WT="/tmp/wt/$ID$SUF"; OUT="$WT/out"
cd "$WT" || exit 2
git checkout -q -- . 
git apply "$OUT/$X.diff" || { echo "$ID $X: patch does not apply"; exit 1; }
T=$(/venv/bin/python -m pytest -q -p no:cacheprovider --timeout=900 2>&1 | tail -1)
FAILS=$(/venv/bin/python -m pytest -q -p no:cacheprovider --timeout=900 2>&1 | grep -c "^FAILED")
PYTHONPATH="$WT" /venv/bin/python "$OUT/demo_$X.py" >/tmp/wt/demo_$ID$X.mut.log 2>&1; RC_MUT=$?
git checkout -q -- .
PYTHONPATH="$WT" /venv/bin/python "$OUT/demo_$X.py" >/tmp/wt/demo_$ID$X.clean.log 2>&1; RC_CLEAN=$?
echo "$ID $X: suite='$T' failed_tests=$FAILS demo_with_patch_rc=$RC_MUT demo_clean_rc=$RC_CLEAN"
if [ "$FAILS" = "6" ] && [ "$RC_MUT" != "0" ] && [ "$RC_CLEAN" = "0" ]; then
  D="/verif/seeded/${ID}_$NAME"; mkdir -p "$D"
  cp "$OUT/$X.diff" "$D/patch.diff"; cp "$OUT/demo_$X.py" "$D/demo.py"; cp "$OUT/notes_$X.md" "$D/notes.md"
  python3 - "$ID" "$NAME" "$T" "$RC_MUT" "$RC_CLEAN" <<'PY'
import json,sys
ID,X,T,rm,rc=sys.argv[1:6]
d="/verif/seeded/%s_%s"%(ID,X)
notes=open(d+"/notes.md").read()
json.dump({"property":ID,"variant":X,"source":"independent sub-agent given only the property text and a scratch worktree",
 "needs_to_manifest":notes.strip().splitlines()[:12],
 "confirmed":{"how":"tools/confirm_seed.sh in the scratch worktree at the pinned commit","suite_with_patch":T,"failing_tests_with_patch":6,
   "baseline_failing_tests":6,"demo_rc_with_patch":int(rm),"demo_rc_clean":int(rc)},
 "detected_by":"see DESIGN.md section 12 (table of seeded changes)"},open(d+"/meta.json","w"),indent=1)
PY
  echo "$ID $X: CONFIRMED -> $D"
else
  echo "$ID $X: NOT CONFIRMED"
fi
