"""Table-driven obligations for numeric, unit-aware chempy functions (used by C16, C18, C19).

A case is a dict:
  name      : id
  vars      : {name: (lo, hi)}  real variables with their domain (None = unbounded side); name starting with 'n_' => int
  setup     : optional python source executed first (imports, helper objects) - namespace shared by all expressions
  plain     : expression (source) evaluating the function in unitless mode
  units     : expression evaluating it with units=U (and constants=C ...), inputs multiplied by their units
  unit      : expression in U giving the unit of the result: claim  units_result == plain_result * unit  for ALL
              positive base-unit scales (=> same physical value in any compatible units AND dimensional homogeneity)
  formula   : optional expression: defining formula the plain result must equal
  warn      : optional (var, lo, hi): a warning must be issued iff var is outside [lo, hi] (band of +-1e-9 relative
              around the float literals), in both modes
  assume    : optional list of expressions (extra domain assumptions)
Names available to expressions: the variables, be (backend: UF functions / math), U (units), C (constants, CODATA
values), Cs (constants with symbolic values), Const (exact constant), Fraction.
The same expressions are evaluated symbolically (z3) for the proof and with floats for the replay.
"""
import importlib
import math
import sys
import time
import warnings
from fractions import Fraction

import z3

from . import env
from .usyms import sym_units, sym_constants, float_units, float_constants, BASE, CODATA
from .zrun import twin_verdict, explore_and_prove, uf_prover, eq_term, pyrepr
from .zsym import Real, Int, Const, SymNum, ZBackend, lift, model_value, SymTypeError

BAND = Fraction(1, 10 ** 9)


def _ns(case, mode, point=None):
    """namespace for evaluating the case's expressions. mode: 'sym' or 'float'"""
    ns = {"Fraction": Fraction, "math": math}
    if mode == "sym":
        U = sym_units()
        ns.update(U=U, C=sym_constants(U, False), Cs=sym_constants(U, True), be=ZBackend(), Const=Const)
        assum = list(U.assumptions) + list(ns["Cs"].assumptions)
        for v, dom in case["vars"].items():
            x = Int(v) if v.startswith("n_") else Real(v)
            ns[v] = x
            lo, hi = dom
            if lo is not None:
                assum.append((x >= lo).t if not isinstance(lo, str) else None)
            if hi is not None:
                assum.append((x <= hi).t if not isinstance(hi, str) else None)
        assum = [a for a in assum if a is not None]
    else:
        U = float_units({b: point.get("u_" + b, 1.0) for b in BASE})
        cs = {k: point.get("k_" + k, CODATA[k]) for k in CODATA}
        ns.update(U=U, C=float_constants(U), Cs=float_constants(U, cs), be=math, Const=float)
        for v in case["vars"]:
            val = point[v]
            ns[v] = int(val) if v.startswith("n_") else float(val)
        assum = []
    if case.get("setup"):
        exec(case["setup"], ns)
    for e in case.get("assume", []):
        a = eval(e, ns)
        if mode == "sym":
            assum.append(a.t)
    return ns, assum


def _call(expr, ns):
    with warnings.catch_warnings(record=True) as w:
        warnings.simplefilter("always")
        val = eval(expr, ns)
    return val, [str(x.message) for x in w if issubclass(x.category, UserWarning)]


def _warn_spec(case, ns, unit_scale=1):
    var, lo, hi = case["warn"]
    x = ns[var]
    lo, hi = Fraction(lo), Fraction(hi)
    if case.get("warn_exact"):
        # the end points are given as the exact values the code computes with (e.g. Fraction(273.15) + 40): the documented range is CLOSED
        return (x < lo) | (x > hi), (x >= lo) & (x <= hi)
    must = (x < lo * (1 - BAND)) | (x > hi * (1 + BAND))
    mustnot = (x >= lo * (1 + BAND)) & (x <= hi * (1 - BAND))
    return must, mustnot


def run_case(case, kinds=("units", "formula", "warn"), twin=False, deadline_s=120):
    ns, assum = _ns(case, "sym")
    has_units = "units" in case and "units" in kinds
    has_formula = "formula" in case and "formula" in kinds
    has_warn = "warn" in case and "warn" in kinds

    def fn():
        out = {}
        out["plain"] = _call(case["plain"], ns)
        if has_units:
            out["units"] = _call(case["units"], ns)
            out["unit"] = eval(case["unit"], ns)
        if has_formula:
            out["formula"] = eval(case["formula"], ns)
        return out

    def tup(x):
        return list(x) if isinstance(x, (tuple, list)) else [x]

    def goal(p):
        if p.kind == "exc":
            return False
        o = p.value
        conds = []
        pv, pw = o["plain"]
        if has_units:
            uv, uw = o["units"]
            units_ = tup(o["unit"])
            uvs, pvs = tup(uv), tup(pv)
            if len(uvs) != len(pvs):
                return False
            if len(units_) == 1 and len(pvs) > 1:
                units_ = units_ * len(pvs)
            for a, b, un in zip(uvs, pvs, units_):
                conds.append(eq_term(a, b * un * (2 if twin else 1)))
            if bool(uw) != bool(pw) and "warn" in case:
                return False
        if has_formula:
            for a, b in zip(tup(pv), tup(o["formula"])):
                conds.append(eq_term(a, b + (1 if twin and not has_units else 0)))
        if has_warn:
            must, mustnot = _warn_spec(case, ns)
            if pw:
                conds.append(z3.Not(mustnot.t))
            else:
                conds.append(z3.Not(must.t))
            if twin and not has_units and not has_formula:
                conds.append(z3.BoolVal(bool(pw)))
        return z3.And(*conds) if conds else None

    o = explore_and_prove(fn, assum, goal, prover=uf_prover, deadline_s=deadline_s, max_paths=2000, timeout_ms=30000)
    return o, ns


def _point_from_model(case, ns, m, p):
    """concrete input point (variables + unit scales + constant values) from a solver model; falls back to mid-domain"""
    pt = {}
    names = list(case["vars"]) + ["u_" + b for b in BASE] + ["k_" + k for k in CODATA]
    for nme in names:
        dom = case["vars"].get(nme)
        val = None
        if m is not None:
            try:
                val = model_value(m, z3.Int(nme) if nme.startswith("n_") else z3.Real(nme))
            except Exception:
                val = None
        if nme.startswith("u_") and (val is None or val <= 0 or val == 1):
            val = Fraction(3 + len(nme) + BASE.index(nme[2:]), 4)  # generic scale != 1
        if nme.startswith("k_") and (val is None or val <= 0):
            val = Fraction(CODATA[nme[2:]])
        if val is None:
            lo, hi = dom
            val = Fraction(lo if lo is not None else 1) / 2 + Fraction(hi if hi is not None else (lo or 1) + 2) / 2
        pt[nme] = val
    return pt


def _generic_points(case, pt):
    """deterministic generic points of the domain (distinct values per variable) - witness search only, never a verdict"""
    out = []
    primes = [2, 3, 5, 7, 11, 13, 17, 19, 23, 29, 31, 37]
    for shift in range(4):
        c = dict(pt)
        for i, (v, dom) in enumerate(case["vars"].items()):
            lo, hi = dom
            q = Fraction(primes[(i + shift) % len(primes)], primes[(i + 2 * shift + 3) % len(primes)])
            if v.startswith("n_"):
                vals = [x for x in range(int(lo), int(hi) + 1) if x != 0]
                c[v] = vals[(i * 3 + shift * 5) % len(vals)]
            elif lo is not None and hi is not None:
                c[v] = Fraction(lo) + (Fraction(hi) - Fraction(lo)) * (q / (1 + q))
            elif lo is not None:
                c[v] = Fraction(lo) + q
            else:
                c[v] = q - 1
        out.append(c)
    return out


def replay(modname, casename, point, kinds):
    """concrete re-evaluation with floats (unit scales = floats). returns 1 if a violation reproduces, else 0"""
    mod = importlib.import_module(modname)
    case = [c for c in mod.CASES if c["name"] == casename][0]
    pt = {k: float(Fraction(v)) for k, v in point.items()}
    ns, _ = _ns(case, "float", pt)
    bad = []

    def close(a, b):
        a, b = float(a), float(b)
        return abs(a - b) <= 1e-9 * max(abs(a), abs(b)) + 1e-300

    def tup(x):
        return list(x) if isinstance(x, (tuple, list)) else [x]

    try:
        pv, pw = _call(case["plain"], ns)
    except Exception as e:
        print("plain call raised %r" % (e,))
        return 1
    if "units" in case and "units" in kinds:
        try:
            uv, uw = _call(case["units"], ns)
            un = tup(eval(case["unit"], ns))
            if len(un) == 1:
                un = un * len(tup(pv))
            for a, b, u_ in zip(tup(uv), tup(pv), un):
                if not close(a, b * u_):
                    bad.append("units mode gives %r, unitless value times unit is %r (unit scales %s)" % (
                        a, b * u_, {k: v for k, v in pt.items() if k.startswith("u_")}))
            if "warn" in case and bool(uw) != bool(pw):
                bad.append("warning differs between modes: %r vs %r" % (uw, pw))
        except Exception as e:
            bad.append("units-mode call raised %r" % (e,))
    if "formula" in case and "formula" in kinds:
        fv = eval(case["formula"], ns)
        for a, b in zip(tup(pv), tup(fv)):
            if not close(a, b):
                bad.append("value %r differs from defining formula %r" % (a, b))
    if "warn" in case and "warn" in kinds:
        var, lo, hi = case["warn"]
        x = ns[var]
        lo, hi = float(Fraction(lo)), float(Fraction(hi))
        if case.get("warn_exact"):
            if (x < lo or x > hi) and not pw:
                bad.append("no range warning for %s=%r outside [%r, %r]" % (var, x, lo, hi))
            if lo <= x <= hi and pw:
                bad.append("spurious warning %r for %s=%r inside the closed range [%r, %r]" % (pw, var, x, lo, hi))
        elif x < lo * (1 - 1e-9) or x > hi * (1 + 1e-9):
            if not pw:
                bad.append("no range warning for %s=%r outside [%r, %r]" % (var, x, lo, hi))
        elif lo * (1 + 1e-9) <= x <= hi * (1 - 1e-9) and pw:
            bad.append("spurious warning %r for %s=%r inside [%r, %r]" % (pw, var, x, lo, hi))
    print("case %s at %s" % (casename, pt))
    for b in bad:
        print("MISMATCH", b)
    return 1 if bad else 0


REPLAY = '''
sys.path.insert(0, "/verif")
from vlib.ucase import replay
sys.exit(replay(%(mod)r, %(case)r, %(point)s, %(kinds)r))
'''


def _replay_fresh(modname, casename, point, kinds):
    import subprocess
    import sys

    src = ("import sys; sys.path.insert(0, %r)\nfrom vlib import env; env.setup()\nfrom vlib.ucase import replay\n"
           "sys.exit(replay(%r, %r, %r, %r))\n" % (env.VERIF, modname, casename, point, kinds))
    try:
        r = subprocess.run([sys.executable, "-c", src], stdout=subprocess.DEVNULL, stderr=subprocess.DEVNULL, timeout=120)
        return r.returncode == 1
    except Exception:
        return False


def task_case(modname, casename, kinds=("units", "formula", "warn"), deadline_s=120):
    mod = importlib.import_module(modname)
    case = [c for c in mod.CASES if c["name"] == casename][0]
    kinds = tuple(k for k in kinds if (k if k != "units" else "units") in case or (k == "warn" and "warn" in case))
    t0 = time.time()
    o, ns = run_case(case, kinds, deadline_s=deadline_s)
    ot, _ = run_case(case, kinds, twin=True, deadline_s=deadline_s)
    fns = []
    for tname in case.get("targets", []):
        mname, _, attr = tname.rpartition(".")
        try:
            obj = importlib.import_module(mname)
            for a in attr.split(":"):
                obj = getattr(obj, a)
            fns.append(env.describe(obj))
        except Exception:
            fns.append(tname)
    res = dict(engine="Z", functions=fns, obligations=o.obligations, discharged=o.discharged, violations=[], inconclusive=list(o.inconclusive),
               queries=o.queries, paths=o.paths, solver_s=o.solver_s, twin=("violated" if ot.obligations == 0 else twin_verdict(ot)),
               bounds="vars %s; all positive base-unit scales; kinds=%s" % (case["vars"], list(kinds)),
               sample={"case": casename, "plain": case["plain"], "units": case.get("units"), "unit": case.get("unit"),
                       "formula": case.get("formula"), "warn": case.get("warn")})
    for p, m, g in o.failed[:2]:
        pt = _point_from_model(case, ns, m, p)
        # the model of an abstracted (UF) query need not be a real witness: look for one among a few generic points
        import contextlib
        import io

        for cand in [pt] + [dict(pt, **{k: Fraction(v) for k, v in h.items()}) for h in case.get("hints", [])] + _generic_points(case, pt):
            # in a fresh interpreter: the exploration above may have left symbolic values in module/class-level state of the
            # code under test (that is exactly what a stale-cache defect does), which must not leak into the concrete evaluation
            hit = _replay_fresh(modname, casename, {k: str(v) for k, v in cand.items()}, tuple(kinds))
            if hit:
                pt = cand
                break
        exc = p.kind == "exc"
        wrapper = exc and isinstance(p.value, SymTypeError)
        res["violations"].append(dict(
            key="%s:%s" % (casename, "exc" if exc else "value"),
            desc="%s at %s%s" % (casename, {k: str(v) for k, v in pt.items() if not k.startswith("k_")}, (" raised %r" % (p.value,)) if exc else ""),
            soft=True,
            replay_src=REPLAY % dict(mod=modname, case=casename, point=repr({k: str(v) for k, v in pt.items()}), kinds=tuple(kinds))))
    res["status"] = "violation" if res["violations"] else ("inconclusive" if res["inconclusive"] else "discharged")
    return res
