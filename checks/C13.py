"""C13 - LaTeX, Unicode and HTML names show the same formula that was given (Engine X: CrossHair)."""
from vlib import env, cxrun

META = {
    "level": "other",
    "explanation": "bounded symbolic verification with CrossHair: the three real renderers (regex substitution on raw text) are compared with a "
                   "structural token-level renderer written from the statement, over symbolic counts (1..999), decimal counts, charges "
                   "(1..99, both signs), hydrate multipliers (two separators, both spellings), every greek/radical prefix (symbolic table "
                   "index) and whole symbolic formula strings over the alphabet {H,O,2,3,+} restricted to the grammar; Reaction/Equilibrium "
                   "rendering with symbolic coefficients (omitted iff 1, stored order, arrow per format). Species.from_formula phase index "
                   "and the three names on created substances by concrete calls over all suffixes",
    "bounds": {"quick": "one or two symbolic integers per harness; whole strings of length <= 4", "thorough": "whole strings of length <= 5"},
    "assumptions": ["inverse mapping (un-rendering) follows from equality with the structural renderer, which is injective on tokens; "
                    "composition part of the statement is C01"],
    "outside": ["formulas outside the listed skeleton families for multi-digit combinations", "primes/caged forms (covered concretely)"],
    "trusted_base": ["CrossHair 0.0.110 + z3"],
}


def task_cx(tier, only=None):
    from chempy.util import parsing
    from chempy.printing.string import StrPrinter

    return cxrun.run_harness("cx/C13_render.py", timeout=280 if tier == "quick" else 2400, only=only,
                             functions=[env.describe(parsing._formula_to_format), env.describe(parsing._formula_to_parts), env.describe(parsing._get_charge),
                                        env.describe(parsing._get_leading_integer), env.describe(parsing.formula_to_latex),
                                        env.describe(parsing.formula_to_unicode), env.describe(parsing.formula_to_html),
                                        env.describe(StrPrinter._Reaction_parts)], replay_note="rendering")


def species_checks():
    """finite, concrete table (not solver evidence): phase index selected by every documented suffix (tuple and dict `phases`), the three
    names carried by created substances, LaTeX escaping of braces, printing of fractional coefficients"""
    from chempy import Species, Substance, Reaction, Equilibrium
    from chempy.util.parsing import formula_to_latex, formula_to_unicode, formula_to_html

    bad = []
    for core in ("H2O", "Fe+3", "alpha-FeOOH", "[Fe(CN)6]-3", "Na2CO3..7H2O", ".NO2"):
        for suf, idx in (("(s)", 1), ("(l)", 2), ("(g)", 3), ("", 0)):
            f = core + suf
            s = Species.from_formula(f)
            if s.phase_idx != idx:
                bad.append("%s phase_idx %s" % (f, s.phase_idx))
        for suf in ("(s)", "(l)", "(g)", "(aq)", ""):
            f = core + suf
            sub = Substance.from_formula(f)
            if (sub.latex_name, sub.unicode_name, sub.html_name) != (formula_to_latex(f), formula_to_unicode(f), formula_to_html(f)):
                bad.append("%s names" % f)
    ph = {"(aq)": 0, "(s)": 1, "(g)": 2}
    for f, idx in (("Ca+2(aq)", 0), ("CaCO3(s)", 1), ("CO2(g)", 2), ("CO2", -1)):
        got = Species.from_formula(f, phases=ph, default_phase_idx=-1).phase_idx
        if got != idx:
            bad.append("%s with phases=%s default -1: phase_idx %s" % (f, ph, got))
    # `phases` given as other mapping kinds (dict subclasses) reads the same as the plain dict
    from collections import OrderedDict, defaultdict
    for phm in (OrderedDict([("(g)", 2), ("(aq)", 0), ("(s)", 1)]), defaultdict(int, ph)):
        for f, idx in (("Ca+2(aq)", 0), ("CaCO3(s)", 1), ("CO2(g)", 2), ("CO2", -1)):
            got = Species.from_formula(f, phases=phm, default_phase_idx=-1).phase_idx
            if got != idx:
                bad.append("%s with phases=%r default -1: phase_idx %s" % (f, phm, got))
    subs = {k: Substance.from_formula(k) for k in ("H2O2", "O2", "H2O", "SO2", "SO3")}
    # a float coefficient is printed with every digit needed to read the same float back
    third = Reaction({"H2O2": 1}, {"O2": 1 / 3, "H2O": 0.1 + 0.2}, checks=())
    for txt in (str(third), third.unicode(subs), third.latex(subs), third.html(subs)):
        if str(1 / 3) + " " not in txt or str(0.1 + 0.2) + " " not in txt:
            bad.append("float coefficients %r, %r printed as %r" % (1 / 3, 0.1 + 0.2, txt))
    r = Reaction({"H2O2": 1}, {"O2": 0.5, "H2O": 1}, checks=())
    e = Equilibrium({"SO2": 1, "O2": 0.5}, {"SO3": 1}, checks=())
    for got, exp in ((r.unicode(subs), "H₂O₂ → H₂O + 0.5 O₂"), (r.latex(subs), "H_{2}O_{2} \\rightarrow H_{2}O + 0.5 O_{2}"),
                     (r.html(subs), "H<sub>2</sub>O<sub>2</sub> &rarr; H<sub>2</sub>O + 0.5 O<sub>2</sub>"), (e.unicode(subs), "0.5 O₂ + SO₂ ⇌ SO₃"),
                     (str(r), "H2O2 -> H2O + 0.5 O2")):
        if got != exp:
            bad.append("fractional coefficient printed as %r, expected %r" % (got, exp))
    for f, exp in (("{(H2O)2OH}12", "\\{(H_{2}O)_{2}OH\\}_{12}"), ("Fe{CN}6-3", "Fe\\{CN\\}_{6}^{3-}"), ("{Li@C60}+", "\\{Li@C_{60}\\}^{+}")):
        if formula_to_latex(f) != exp:
            bad.append("latex braces %s -> %s" % (f, formula_to_latex(f)))
    return bad


def task_species():
    from chempy import Species, Substance

    bad = species_checks()
    res = dict(engine="X", functions=[env.describe(Species.from_formula), env.describe(Substance.from_formula)], obligations=1,
               discharged=0 if bad else 1, violations=[], twin="n/a", bounds="finite table of concrete formulas (sanity, not solver evidence)",
               sample={"formula": "alpha-FeOOH(s)", "phase_idx": 1})
    if bad:
        res["violations"].append(dict(key="species:%s" % bad[0].split()[0], desc="; ".join(bad[:4]), replay_src='''
sys.path.insert(0, "/verif")
from checks.C13 import species_checks
bad = species_checks()
print(bad); sys.exit(1 if bad else 0)
'''))
    res["status"] = "violation" if bad else "discharged"
    return res


def tasks(tier, seed):
    names = ["count_simple", "count_group_suffix", "count_nested", "count_twice_charge", "decimal_fraction", "decimal_integer_part", "charge_pos", "charge_neg_suffix",
             "charge_bracket", "charge_after_counts", "hydrate_one", "hydrate_two_first", "hydrate_two_second", "prefix", "whole_string", "reaction_rendering", "primes_caged", "braces", "radical_with_count_and_charge"]
    ts = [dict(id="C13.%s" % n, fn="task_cx", kwargs=dict(tier=tier, only="_h_" + n), timeout=5000) for n in names]
    ts.append(dict(id="C13.species_phase", fn="task_species", kwargs={}, timeout=120))
    return ts
