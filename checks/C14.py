"""C14 - molar mass is the composition-weighted sum of standard atomic weights (Engine Z + CrossHair)."""
import json
import os
import time

import z3
from fractions import Fraction

from vlib import env
from vlib.zrun import conjunct_prover, twin_verdict, explore_and_prove, all_eq, concretize, pyrepr, eq_term, wrapper_exc
from vlib.zsym import Real, Int, SymNum, lift, model_value, _q

META = {
    "level": "other",
    "explanation": "bounded symbolic verification: one execution of the real mass_from_composition on a composition with 119 symbolic "
                   "real counts (charge + all 118 elements) yields a linear term; a single z3 LRA query proves it equal - within the "
                   "per-element tolerance - to sum n_i*W_i - q*m_e with W_i from an independently written reference table; "
                   "Substance.mass (repeated reads, data override) and mass_fractions are executed on symbolic counts/coefficients/masses "
                   "and proved equal to their definitions (z3 NRA); atomic_number lookups by CrossHair over a symbolic table index",
    "bounds": {"quick": "all 118 elements at once, counts any non-negative reals, charge any real; mixtures of 2-3 substances (all forms) and of 9 and 16 substances (plain mapping, concrete distinct masses)",
               "thorough": "same + mixtures of 4..20 substances"},
    "assumptions": [
        "reference table /verif/ref/atomic_weights.json (written independently; tolerance 5e-4 relative, 3% for Z>=104 where the quoted "
        "mass number differs between IUPAC tables; electron mass 1e-3 relative)",
        "additivity over hydrate parts/groups follows from C01 (composition) + linearity proved here; not re-proved end-to-end",
        "identity over the reals",
    ],
    "outside": ["float summation error", "formula -> composition (C01)"],
    "trusted_base": ["z3 5.1", "vlib/zsym.py", "ref/atomic_weights.json"],
}

REF = json.load(open(os.path.join(env.VERIF, "ref", "atomic_weights.json")))


def tol(z):
    return 0.03 if z >= 104 else 5e-4


REPLAY = '''
import json
from chempy.util.periodic import mass_from_composition, symbols, names, relative_atomic_masses
from chempy import Substance
ref = json.load(open("/verif/ref/atomic_weights.json"))
comp = %(comp)s
bad = []
m = mass_from_composition(dict(comp))
exp = sum(v * ref["elements"][k - 1][2] for k, v in comp.items() if k != 0) - comp.get(0, 0) * ref["electron_mass_u"]
slack = sum(abs(v) * ref["elements"][k - 1][2] * (0.03 if k >= 104 else 5e-4) for k, v in comp.items() if k != 0) + abs(comp.get(0, 0)) * 1e-3 * ref["electron_mass_u"]
if abs(m - exp) > slack + 1e-12: bad.append("mass_from_composition(%%s) = %%r, reference %%r (tolerance %%g)" %% (comp, m, exp, slack))
m_neutral = mass_from_composition({k: v for k, v in comp.items() if k != 0})
dq = comp.get(0, 0)
if abs((m - m_neutral) + dq * ref["electron_mass_u"]) > abs(dq) * 1e-3 * ref["electron_mass_u"] + 1e-9:
    bad.append("ion %%s vs neutral parent: masses differ by %%r, expected -q*m_e = %%r" %% (comp, m - m_neutral, -dq * ref["electron_mass_u"]))
s = Substance("X", composition=dict(comp))
m1 = s.mass; m2 = s.mass
if m1 != m2 or s.composition != comp: bad.append("repeated Substance.mass reads differ / composition mutated: %%r %%r %%r" %% (m1, m2, s.composition))
if abs(m1 - exp) > slack + 1e-12: bad.append("Substance.mass %%r vs reference %%r" %% (m1, exp))
for fstr, parts_ in (("CuSO4..3Cu(OH)2..H2O", (("CuSO4", 1), ("Cu(OH)2", 3), ("H2O", 1))), ("Na2CO3..NaHCO3..2H2O", (("Na2CO3", 1), ("NaHCO3", 1), ("H2O", 2))),
                     ("CaSO4..H2O", (("CaSO4", 1), ("H2O", 1)))):
    tot_ = sum(n_ * Substance.from_formula(f_).mass for f_, n_ in parts_)
    if abs(Substance.from_formula(fstr).mass - tot_) > 1e-9 * tot_: bad.append("mass of %%s is %%r, its parts add up to %%r" %% (fstr, Substance.from_formula(fstr).mass, tot_))
me = ref["electron_mass_u"]
for qv in (-1, -2, 3):
    mbare = mass_from_composition({0: qv})
    if abs(mbare + qv * me) > 1e-3 * me * abs(qv): bad.append("mass of a bare charge %%d is %%r, expected %%r" %% (qv, mbare, -qv * me))
if abs(Substance.from_formula("e-").mass - me) > 1e-3 * me: bad.append("mass of 'e-' is %%r" %% Substance.from_formula("e-").mass)
for fstr, expc in (("Fe", {26: 1}), ("H2O", {1: 2, 8: 1})):
    Substance.from_formula(fstr, charge=3)
    again = Substance.from_formula(fstr)
    if {k: v for k, v in again.composition.items() if v != 0} != expc or again.mass != mass_from_composition(expc):
        bad.append("Substance.from_formula(%%r) after one with an explicit charge: composition %%r mass %%r" %% (fstr, again.composition, again.mass))
for i, (sym, name, w) in enumerate(ref["elements"]):
    if symbols[i] != sym or names[i].lower() != name.lower(): bad.append("table entry %%d: %%s %%s" %% (i + 1, symbols[i], names[i]))
for b in bad: print("MISMATCH", b)
sys.exit(1 if bad else 0)
'''


def task_table():
    from chempy.util import periodic
    from chempy import Substance

    t0 = time.time()
    res = dict(engine="Z", functions=[env.describe(periodic.mass_from_composition), env.describe(periodic._get_relative_atomic_masses),
                                      env.describe(Substance.mass.fget), "chempy.util.periodic._elements@" + env.source_sha("chempy/util/periodic.py")],
               obligations=0, discharged=0, violations=[], inconclusive=[], queries=0, solver_s=0.0,
               bounds="all 118 elements in one query; counts: non-negative reals; charge: any real")
    n = {z: Real("n%d" % z) for z in range(1, 119)}
    q = Real("q")
    comp = {0: q}
    comp.update(n)
    assum = [v.t >= 0 for v in n.values()]
    me = REF["electron_mass_u"]

    # int()/float() inside the module under test act on symbols too: int truncates towards zero (a coercion of the counts would show)
    periodic.int = lambda x=0, *a: x.truncated() if hasattr(x, "truncated") else int(x, *a)
    periodic.float = lambda x=0: x if hasattr(x, "truncated") else float(x)
    qh = Real("qh")

    def run():
        # history through the formula interface: a substance created from a neutral formula WITH an explicit charge, then the same
        # formula again without one - the second one is the neutral substance (nothing may be shared between the two)
        hist = []
        for fstr in ("Fe", "H2O"):
            Substance.from_formula(fstr, charge=qh)
            again = Substance.from_formula(fstr)
            hist.append((fstr, dict(again.composition), again.mass, periodic.mass_from_composition({k: v for k, v in again.composition.items() if k != 0})))
        hist_ok.append(hist)
        # additivity over hydrate parts (counted part followed by an uncounted one, and the reverse): mass(formula) = sum of the parts
        for fstr, parts_ in (("CuSO4..3Cu(OH)2..H2O", (("CuSO4", 1), ("Cu(OH)2", 3), ("H2O", 1))), ("Na2CO3..NaHCO3..2H2O", (("Na2CO3", 1), ("NaHCO3", 1), ("H2O", 2))),
                             ("CaSO4..H2O", (("CaSO4", 1), ("H2O", 1)))):
            tot_ = sum(n_ * Substance.from_formula(f_).mass for f_, n_ in parts_)
            if abs(Substance.from_formula(fstr).mass - tot_) > 1e-9 * tot_:
                hydr_bad.append(fstr)
        # degenerate composition: nothing but a charge (the electron and its multiples) - the mass is -q * m_e
        bare.append((periodic.mass_from_composition({0: q}), Substance.from_formula("e-").mass, Substance("E", composition={0: q}).mass))
        m = periodic.mass_from_composition(dict(comp))
        neutral.append(periodic.mass_from_composition(dict(n)))
        s = Substance("X", composition=dict(comp))
        m1 = s.mass
        m2 = s.mass
        s2 = Substance("Y", composition=dict(comp), data={"mass": Real("given")})
        return m, m1, m2, s.composition, s2.mass

    parts = {}
    hist_ok = []
    bare = []
    neutral = []
    hydr_bad = []
    EXPECT = {"Fe": {26: 1}, "H2O": {1: 2, 8: 1}}

    def goal(p, twin=False):
        if p.kind == "exc":
            return False
        m, m1, m2, comp_after, mgiven = p.value
        if hydr_bad:
            return False
        hconds = []
        for fstr, c2, mass2, mneutral in hist_ok[-1]:
            if {k: v for k, v in c2.items() if not (k == 0 and not isinstance(v, SymNum) and v == 0)} != EXPECT[fstr]:
                parts["history"] = z3.BoolVal(False)
                return False
            hconds.append(eq_term(mass2, mneutral))
        ref = z3.Sum([n[z].t * _q(REF["elements"][z - 1][2]) for z in n]) - q.t * _q(me)
        if twin:
            ref = ref + n[50].t * _q(0.2)
        slack = z3.Sum([n[z].t * _q(REF["elements"][z - 1][2] * tol(z)) for z in n]) + z3.If(q.t >= 0, q.t, -q.t) * _q(me * 1e-3)
        if set(comp_after) != set(comp) or any(comp_after[k] is not comp[k] for k in comp):
            return False
        mt = lift(m)
        parts["value"] = z3.And(mt - ref <= slack, ref - mt <= slack)
        parts["reads"] = z3.And(eq_term(m1, m), eq_term(m2, m), eq_term(mgiven, Real("given")))
        parts["history"] = z3.And(*hconds)
        mb, me1, mb2 = bare[-1]
        tolq = z3.If(q.t >= 0, q.t, -q.t) * _q(me * 1e-3)
        parts["bare"] = z3.And(lift(mb) + q.t * _q(me) <= tolq, -(lift(mb) + q.t * _q(me)) <= tolq, eq_term(mb2, mb),
                               z3.BoolVal(abs(float(me1) - me) <= 1e-3 * me))
        # an ion differs from its neutral parent by exactly the electron masses (no table tolerance enters this relation)
        dm = lift(m) - lift(neutral[-1]) + q.t * _q(me)
        parts["ion"] = z3.And(dm <= tolq, -dm <= tolq)
        return z3.And(parts["value"], parts["reads"], parts["history"], parts["bare"], parts["ion"])

    o = explore_and_prove(run, assum, goal)
    ot = explore_and_prove(run, assum, lambda p: goal(p, True), max_fail=1)
    res.update(obligations=o.obligations + 1, discharged=o.discharged, queries=o.queries, paths=o.paths, solver_s=o.solver_s,
               inconclusive=o.inconclusive, twin=twin_verdict(ot))
    for p, m, g in o.failed[:1]:
        if p.kind == "exc":
            cc = {0: 1, 1: 2, 8: 1}
        else:
            cc = {k: model_value(m, v.t) for k, v in comp.items()}
            cc = {k: v for k, v in cc.items() if v != 0}
            value_fails = "value" in parts and z3.is_false(m.eval(parts["value"], model_completion=True))
            if not value_fails or not cc:
                # the failure concerns repeated reads / mutation of the caller's mapping: exercise it with an ion
                cc = {0: -2, 16: 1, 8: 4}
        if p.kind == "exc" and wrapper_exc(p.value):
            # the code left the symbolic domain on the query with ALL 118 elements at once (e.g. a route taken only by large
            # compositions): also decide concretely on compositions of that size (soft: reported only if the replay reproduces)
            for tag, big in (("full", dict([(0, 2)] + [(z_, 1 + z_ % 3) for z_ in range(1, 119)])), ("ion9", {0: 1, 11: 1, 19: 2, 12: 1, 20: 3, 26: 1, 13: 2, 14: 1, 8: 4}),
                             ("anion12", dict([(0, -3)] + [(z_, 2) for z_ in range(3, 14)]))):
                res["violations"].append(dict(key="mass:exc-%s" % tag, soft=True, desc="composition with %d entries (charge %s): mass differs from reference" % (len(big), big[0]),
                                              replay_src=REPLAY % dict(comp=pyrepr(big))))
        res["violations"].append(dict(key="mass:%s" % ("exc" if p.kind == "exc" else "value"), soft=(p.kind == "exc" and wrapper_exc(p.value)),
                                      desc="composition %s: %s" % (cc, "raised %r" % (p.value,) if p.kind == "exc" else "mass differs from reference / repeated reads"),
                                      replay_src=REPLAY % dict(comp=pyrepr(cc))))
    # symbols / names / index <-> Z (finite table, compared entry by entry with the reference)
    bad = [i + 1 for i, (s, nm, w) in enumerate(REF["elements"])
           if i >= len(periodic.symbols) or periodic.symbols[i] != s or periodic.names[i].lower() != nm.lower()]
    if len(periodic.symbols) != 118 or bad:
        res["violations"].append(dict(key="table:symbols", desc="symbol/name table differs from reference at Z=%s" % bad[:5],
                                      replay_src=REPLAY % dict(comp=pyrepr({1: 1}))))
    else:
        res["discharged"] += 1
    res["sample"] = {"composition": "{0: q, 1: n1, ..., 118: n118} (119 symbolic reals)", "oracle": "sum n_i*W_ref_i - q*m_e within tolerance"}
    res["status"] = "violation" if res["violations"] else ("inconclusive" if res["inconclusive"] else "discharged")
    return res


REPLAY_MF = '''
from chempy import Substance, mass_fractions
coeffs = %(coeffs)s
masses = %(masses)s
from collections import OrderedDict
subs = OrderedDict((k, Substance(k, composition={1: 1}, data={"mass": masses[k]})) for k in reversed(list(coeffs)))
got = mass_fractions(dict(coeffs), substances=subs)
tot = sum(coeffs[k] * masses[k] for k in coeffs)
bad = []
if sum(got.values()) != 1: bad.append("fractions sum to %%s" %% sum(got.values()))
for k in coeffs:
    if got[k] != coeffs[k] * masses[k] / tot or not got[k] > 0: bad.append("fraction of %%s is %%s expected %%s" %% (k, got[k], coeffs[k] * masses[k] / tot))
r3 = mass_fractions(dict(coeffs), substance_factory=lambda k: Substance(k, composition={1: 1}, data={"mass": masses[k]}))
for k in coeffs:
    if r3[k] != coeffs[k] * masses[k] / tot: bad.append("with a substance factory: fraction of %%s is %%s expected %%s" %% (k, r3[k], coeffs[k] * masses[k] / tot))
import numpy as np
arrc = {k: np.array([coeffs[k], 2 * coeffs[k] + 1], dtype=object) for k in coeffs}
r4 = mass_fractions(dict(arrc), substances=subs)
tot2 = sum((2 * coeffs[k] + 1) * masses[k] for k in coeffs)
for k in coeffs:
    if r4[k][0] != coeffs[k] * masses[k] / tot or r4[k][1] != (2 * coeffs[k] + 1) * masses[k] / tot2: bad.append("array-valued coefficients: fraction of %%s is %%s" %% (k, list(r4[k])))
from collections import Counter
r5 = mass_fractions(Counter(coeffs), substances=subs)
for k in coeffs:
    if r5[k] != coeffs[k] * masses[k] / tot: bad.append("Counter mixture: fraction of %%s is %%s expected %%s" %% (k, r5[k], coeffs[k] * masses[k] / tot))
reg = OrderedDict(subs); reg["Xtra"] = Substance("Xtra", composition={1: 1}, data={"mass": masses["S0"]})
r7 = mass_fractions(set(coeffs), substances=reg)
totm = sum(masses[k] for k in coeffs)
if set(r7) != set(coeffs) or any(r7[k] != masses[k] / totm for k in coeffs): bad.append("set mixture with a larger registry: %%s" %% (r7,))
r2 = mass_fractions({"H2O": float(coeffs["S0"]), "Fe+3": float(coeffs["S1"])})
mw, mf = Substance.from_formula("H2O").mass, Substance.from_formula("Fe+3").mass
e2 = float(coeffs["S0"]) * mw / (float(coeffs["S0"]) * mw + float(coeffs["S1"]) * mf)
if abs(sum(r2.values()) - 1) > 1e-12 or abs(r2["H2O"] - e2) > 1e-12: bad.append("formula mixture: %%s (sum %%r), expected H2O fraction %%r" %% (r2, sum(r2.values()), e2))
for b in bad: print("MISMATCH", b)
sys.exit(1 if bad else 0)
'''


def task_fractions(nsub):
    from chempy import Substance, mass_fractions

    keys = ["S%d" % i for i in range(nsub)]
    coeffs = {k: Real("v_" + k) for k in keys}
    lite = nsub > 4   # large mixtures: concrete distinct masses and the plain-dict call only (the query stays within reach of nlsat)
    masses = {k: (Fraction(3 * i + 2, 2) if lite else Real("m_" + k)) for i, k in enumerate(keys)}
    assum = [v.t > 0 for v in coeffs.values()] + [v.t > 0 for v in masses.values() if not lite]

    kinds = []

    def run():
        from collections import OrderedDict
        # the substances mapping is given in the reverse order of the stoichiometry (e.g. a ReactionSystem.substances dict)
        subs = OrderedDict((k, Substance(k, composition={1: 1}, data={"mass": masses[k]})) for k in reversed(keys))
        r1 = mass_fractions(dict(coeffs), substances=subs)
        if lite:
            return r1, None, None, None, True
        # formula-defined substances (real parser + real table), symbolic coefficients
        f = {"H2O": coeffs[keys[0]], "Fe+3": coeffs[keys[1]]}
        r2 = mass_fractions(dict(f))
        # optional arguments / input forms: a caller-supplied factory decides the masses; coefficients given as arrays (a batch of mixtures)
        r3 = mass_fractions(dict(coeffs), substance_factory=lambda k: Substance(k, composition={1: 1}, data={"mass": masses[k]}))
        import numpy as np
        arrc = {k: np.array([coeffs[k], 2 * coeffs[k] + 1], dtype=object) for k in keys}
        r4 = mass_fractions(dict(arrc), substances=subs)
        kept = all(arrc[k][0] is coeffs[k] for k in keys)
        # other kinds of mixture mappings: a Counter (whose update() ADDS), an OrderedDict, a set (unit multiplicities) with a registry
        # that holds MORE substances than the mixture
        from collections import Counter, OrderedDict as OD
        r5 = mass_fractions(Counter(coeffs), substances=subs)
        r6 = mass_fractions(OD(reversed(list(coeffs.items()))), substances=subs)
        reg = OD(subs)
        reg["Xtra"] = Substance("Xtra", composition={1: 1}, data={"mass": masses[keys[0]]})
        r7 = mass_fractions(set(keys), substances=reg)
        kinds.append((r5, r6, r7))
        return r1, r2, r3, r4, kept

    def goal(p, twin=False):
        if p.kind == "exc":
            return False
        r1, r2, r3, r4, kept = p.value
        if lite:
            if set(r1) != set(keys):
                return False
            tot = sum(coeffs[k] * masses[k] for k in keys)
            if twin:
                return eq_term(r1[keys[0]] * tot, coeffs[keys[0]] * masses[keys[0]] * 2)
            return z3.And(*[eq_term(r1[k] * tot, coeffs[k] * masses[k]) for k in keys])
        if set(r1) != set(keys) or set(r2) != {"H2O", "Fe+3"} or set(r3) != set(keys) or set(r4) != set(keys) or not kept:
            return False
        tot = sum(coeffs[k] * masses[k] for k in keys)
        if twin:
            return eq_term(r1[keys[0]] * tot, coeffs[keys[0]] * masses[keys[0]] * 2)
        conds = [eq_term(sum(r1.values()), 1), eq_term(sum(r2.values()), 1)]
        r5, r6, r7 = kinds[-1]
        if set(r5) != set(keys) or set(r6) != set(keys) or set(r7) != set(keys):
            return False
        totm = sum(masses[k] for k in keys)
        for k in keys:
            conds += [eq_term(r5[k] * tot, coeffs[k] * masses[k]), eq_term(r6[k] * tot, coeffs[k] * masses[k]), eq_term(r7[k] * totm, masses[k])]
        tot2 = sum((2 * coeffs[k] + 1) * masses[k] for k in keys)
        for k in keys:
            conds += [eq_term(r1[k] * tot, coeffs[k] * masses[k]), lift(r1[k]) > 0, eq_term(r3[k] * tot, coeffs[k] * masses[k]),
                      eq_term(r4[k][0] * tot, coeffs[k] * masses[k]), eq_term(r4[k][1] * tot2, (2 * coeffs[k] + 1) * masses[k])]
        conds += [lift(r2["H2O"]) > 0, lift(r2["Fe+3"]) > 0]
        return z3.And(*conds)

    o = explore_and_prove(run, assum, goal, prover=conjunct_prover)
    ot = explore_and_prove(run, assum, lambda p: goal(p, True), max_fail=1)
    res = dict(engine="Z", functions=[env.describe(mass_fractions)], obligations=o.obligations, discharged=o.discharged, violations=[],
               inconclusive=o.inconclusive, queries=o.queries, paths=o.paths, solver_s=o.solver_s, twin=twin_verdict(ot),
               bounds="%d substances, coefficients and masses any positive reals" % nsub,
               sample={"mixture": keys, "coefficients": "symbolic > 0", "masses": "symbolic > 0"})
    for p, m, g in o.failed[:1]:
        cc = concretize(m, coeffs)
        cm = concretize(m, masses)
        res["violations"].append(dict(key="mass_fractions:%s" % p.kind, desc="coeffs %s masses %s -> %r" % (cc, cm, p.value),
                                      replay_src=REPLAY_MF % dict(coeffs=pyrepr(cc), masses=pyrepr(cm))))
    res["status"] = "violation" if res["violations"] else ("inconclusive" if res["inconclusive"] else "discharged")
    return res


def task_periodic_tables():
    """period / group tables against the closed-form rule (Z ints: period p has 2*ceil((p+1)/2)^2 elements)"""
    from chempy.util import periodic

    bad = []
    lens = [2 * ((p + 2) // 2) ** 2 for p in range(1, 8)]
    if list(periodic.period_lengths) != lens:
        bad.append("period_lengths")
    acc = [sum(lens[: i + 1]) for i in range(7)]
    if list(periodic.accum_period_lengths) != acc:
        bad.append("accum_period_lengths")
    exp = {18: tuple(acc), 1: (1,) + tuple(a + 1 for a in acc[:-1]), 2: tuple(a + 2 for a in acc[:-1])}
    for g in range(13, 18):
        exp[g] = tuple(a - 18 + g for a in acc[1:])
    if {k: tuple(v) for k, v in periodic.groups.items()} != exp:
        bad.append("groups")
    res = dict(engine="Z", functions=["chempy.util.periodic.groups@" + env.source_sha("chempy/util/periodic.py")], obligations=3,
               discharged=3 - len(bad), violations=[], bounds="finite tables", twin="n/a",
               sample={"tables": "period_lengths, accum_period_lengths, groups vs closed form"})
    if bad:
        res["violations"].append(dict(key="tables:%s" % bad[0], desc="%s differ from the closed-form rule" % bad, replay_src='''
from chempy.util import periodic
lens = [2 * ((p + 2) // 2) ** 2 for p in range(1, 8)]
acc = [sum(lens[: i + 1]) for i in range(7)]
ok = list(periodic.period_lengths) == lens and list(periodic.accum_period_lengths) == acc and tuple(periodic.groups[18]) == tuple(acc) \\
    and tuple(periodic.groups[1]) == (1,) + tuple(a + 1 for a in acc[:-1]) and tuple(periodic.groups[17]) == tuple(a - 1 for a in acc[1:])
sys.exit(0 if ok else 1)
'''))
    res["status"] = "violation" if bad else "discharged"
    return res


def task_lookup(tier):
    from vlib import cxrun
    from chempy.util import periodic

    return cxrun.run_harness("cx/C14_lookup.py", timeout=240 if tier == "quick" else 900,
                             functions=[env.describe(periodic.atomic_number)],
                             replay_note="atomic_number lookup")


def tasks(tier, seed):
    ts = [dict(id="C14.table", fn="task_table", kwargs={}, timeout=600),
          dict(id="C14.fractions.2", fn="task_fractions", kwargs=dict(nsub=2), timeout=600),
          dict(id="C14.fractions.3", fn="task_fractions", kwargs=dict(nsub=3), timeout=600),
          dict(id="C14.fractions.9", fn="task_fractions", kwargs=dict(nsub=9), timeout=1200),
          dict(id="C14.fractions.16", fn="task_fractions", kwargs=dict(nsub=16), timeout=1200),
          dict(id="C14.periodic_tables", fn="task_periodic_tables", kwargs={}, timeout=60),
          dict(id="C14.lookup", fn="task_lookup", kwargs=dict(tier=tier), timeout=1200)]
    if tier == "thorough":
        for n_ in range(4, 21):
            if n_ not in (9, 16):
                ts.append(dict(id="C14.fractions.%d" % n_, fn="task_fractions", kwargs=dict(nsub=n_), timeout=1800))
    return ts
