"""C12 - reaction text is read exactly as written and printing/parsing are inverse (Engine X: CrossHair)."""
from vlib import env, cxrun

META = {
    "level": "other",
    "explanation": "bounded symbolic verification with CrossHair (symbolic execution of the real Reaction.from_string / to_reaction / "
                   "_parse_multiplicity / printing code with z3): coefficients are symbolic integers 1..1000 rendered into the text, the "
                   "species keys are chosen by a symbolic index from a pool of 12 tricky space-free keys (leading brackets, charges, phases, "
                   "primes, radicals, greek prefixes), plus one harness over a fully symbolic key string; each harness states the exact "
                   "expected dictionaries (coefficients, repeated species summed, inactive groups, arrow per class, allowed-key rejection, "
                   "parameter/keyword parts, print-parse round trip, copy equality)",
    "bounds": {"quick": "<= 2 symbolic coefficients (1..1000) and <= 2 symbolic key indices per harness; symbolic key string of length <= 3 over "
                        "the alphabet 'A(2)+-['; <= 4 terms per side for repeated species, 12+12 terms and 48-character keys for the print/parse round trip; per-harness CrossHair budget 240 s",
               "thorough": "budget 1200 s per harness"},
    "assumptions": [
        "globals_=False / {} (no eval of parameter expressions beyond integers and quoted names); float parameters 'to printed precision' "
        "(%.3g) are not applicable",
        "ReactionSystem.from_string adds only line splitting and comment filtering on top of Reaction.from_string: covered by concrete lines in "
        "the round-trip harness",
    ],
    "outside": ["float/decimal coefficients and parameters", "units in parameters", "keys outside the pool except the length-3 symbolic key"],
    "trusted_base": ["CrossHair 0.0.110 + z3"],
}


def task_cx(tier, only=None):
    from chempy import Reaction
    from chempy.util import parsing
    from chempy.printing.string import StrPrinter

    return cxrun.run_harness("cx/C12_reaction_text.py", timeout=240 if tier == "quick" else 1200, only=only,
                             functions=[env.describe(parsing.to_reaction), env.describe(parsing._parse_multiplicity),
                                        env.describe(Reaction.from_string), env.describe(StrPrinter._Reaction_parts), env.describe(Reaction.copy),
                                        env.describe(Reaction.__eq__)], replay_note="reaction text")


def tasks(tier, seed):
    names = ["two_coeffs", "products_and_star", "repeated_species", "repeated_nonadjacent", "long_roundtrip", "inactive_groups", "equilibrium_arrow", "allowed_keys", "param_and_kwargs",
             "print_parse_roundtrip", "symbolic_key", "system_roundtrip", "eqsystem_roundtrip", "float_coefficients", "big_int_param"]
    return [dict(id="C12.%s" % n, fn="task_cx", kwargs=dict(tier=tier, only="_h_" + n), timeout=4000) for n in names]
